"""
Confirm a seeded change in its scratch worktree:  try_mutation.py <worktree> <mK> <check ids,comma> [--tests] [--tier quick]
 1. demo on the clean tree must PASS (exit 0), 2. apply diff, demo must FAIL (exit 1),
 3. run the listed /verif checks against the worktree (VERIF_REPO) and record their exit codes,
 4. with --tests run the repository's pinned stable tests against the changed tree,
 5. revert.   Writes <worktree>/_out/<mK>_confirm.json
"""
import json, os, subprocess, sys, time

wt, mk, checks = sys.argv[1], sys.argv[2], [c for c in sys.argv[3].split(",") if c]
run_tests = "--tests" in sys.argv
tier = sys.argv[sys.argv.index("--tier") + 1] if "--tier" in sys.argv else "quick"
out = {"worktree": wt, "mutation": mk, "checks": {}}
env = dict(os.environ, OMP_NUM_THREADS="1")


def sh(cmd, **kw):
    return subprocess.run(cmd, shell=True, cwd=wt, capture_output=True, text=True, env=env, **kw)


assert sh("git status --porcelain --untracked-files=no").stdout.strip() == "", "worktree not clean"
demo = f"/venv/bin/python _out/{mk}_demo.py"
r = sh(demo)
out["demo_clean_rc"] = r.returncode
r = sh(f"git apply _out/{mk}.diff")
assert r.returncode == 0, r.stderr
try:
    r = sh(demo)
    out["demo_mutated_rc"] = r.returncode
    out["demo_mutated_tail"] = (r.stdout + r.stderr)[-600:]
    for c in checks:
        t0 = time.time()
        e = dict(env, VERIF_REPO=wt, VERIF_JOBS="6")
        r = subprocess.run(f"./check run {c} --tier {tier}", shell=True, cwd="/verif", capture_output=True, text=True, env=e)
        lines = [l for l in r.stdout.splitlines() if l.startswith("VIOLATION") or l.startswith("  signature") or l.startswith("  ORDER-DEPENDENT") or l.startswith("[")]
        out["checks"][c] = {"rc": r.returncode, "wall": round(time.time() - t0, 1), "lines": lines[:8], "stderr": r.stderr[-400:] if r.returncode == 2 else ""}
    if run_tests:
        t0 = time.time()
        stable = [l.strip() for l in open("/verif/stable_tests.txt") if l.strip()]
        r = sh("/venv/bin/python -m pytest -q -p no:cacheprovider --timeout=900 -n 4 --continue-on-collection-errors --junitxml=_out/%s_junit.xml test" % mk)
        import xml.etree.ElementTree as ET

        failed = []
        passed = set()
        try:
            for tc in ET.parse(f"{wt}/_out/{mk}_junit.xml").getroot().iter("testcase"):
                name = tc.get("classname").replace(".", "/") + ".py::" + tc.get("name")
                if tc.find("failure") is not None or tc.find("error") is not None:
                    failed.append(name)
                elif tc.find("skipped") is None:
                    passed.add(name)
        except Exception as ex:
            failed.append(f"junit unreadable: {ex}")
        out["tests"] = {
            "rc": r.returncode,
            "wall": round(time.time() - t0, 1),
            "tail": r.stdout[-300:],
            "failed": failed,
            "stable_failed": [f for f in failed if f in stable],
            "stable_missing": [s for s in stable if s not in passed][:10],
        }
finally:
    sh(f"git apply -R _out/{mk}.diff")
dst = f"{wt}/_out/{mk}_confirm.json"
if os.path.exists(dst):  # merge with an earlier confirmation run (checks and tests are usually run separately)
    old = json.load(open(dst))
    if not out["checks"] and old.get("checks"):
        out["checks"] = old["checks"]
    if "tests" not in out and "tests" in old:
        out["tests"] = old["tests"]
json.dump(out, open(dst, "w"), indent=1)
print(json.dumps(out, indent=1)[:3000])
