"""rewrite the detection table in DESIGN.md from seeded/*/meta.json"""
import glob, json, re

rows = ["| seeded change | property | needs to manifest | checks run (exit: 1 = reported) | note |", "|---|---|---|---|---|"]
notes = json.load(open("/verif/tools/detection_notes.json")) if glob.glob("/verif/tools/detection_notes.json") else {}
for f in sorted(glob.glob("/verif/seeded/*/meta.json")):
    m = json.load(open(f))
    checks = ", ".join(f"{k}: {v['exit']}" for k, v in m["checks_run"].items())
    rows.append(f"| {m['id']} | {m['property']} | {m['needs_to_manifest'][:160]} | {checks} | {notes.get(m['id'], '')} |")
s = open("/verif/DESIGN.md").read()
s = re.sub(r"<!-- DETECTION-TABLE-BEGIN -->.*<!-- DETECTION-TABLE-END -->", "<!-- DETECTION-TABLE-BEGIN -->\n" + "\n".join(rows) + "\n<!-- DETECTION-TABLE-END -->", s, flags=re.S)
open("/verif/DESIGN.md", "w").write(s)
print(len(rows) - 2, "rows")
