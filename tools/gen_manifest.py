"""Regenerate MANIFEST.json from the property modules present under mc/props (run with /venv/bin/python)."""
import importlib
import json
import pkgutil
import sys
from pathlib import Path

ROOT = Path(__file__).resolve().parent.parent
sys.path.insert(0, str(ROOT))
from mc import core  # noqa: E402

core._quiet_torch()
import mc.props as props  # noqa: E402

ENGINES = {
    "E1": "small-scope product explorer: complete Cartesian product of small alphabets, one call of the real function per point, boring dense reference oracle",
    "E2": "operation-history explorer: BFS over operation alphabets on fresh real objects, invariant in every state, reference model in lock-step",
    "E3": "environment-answer explorer: the code is closed with a scripted environment owning a nondeterminism source; every answer sequence of a finite alphabet is explored (deviation-bounded), exact probabilities carried along",
    "E4": "crash-point / fault enumerator: a short real history over an interposed file system and fake clock, crash injected at every mutation and torn-write class, real recovery executed",
}
all_ids = [json.loads(l)["id"] for l in (ROOT / "properties.jsonl").read_text().splitlines() if l.strip()]
present = sorted(m.name for m in pkgutil.iter_modules(props.__path__) if m.name.startswith("C"))
pending = json.loads((ROOT / "tools" / "pending_reasons.json").read_text()) if (ROOT / "tools" / "pending_reasons.json").exists() else {}
checks = []
serves = {k: [] for k in ENGINES}
for pid in present:
    mod = importlib.import_module(f"mc.props.{pid}")
    eng = mod.ENGINE.split()[0]
    for e in ENGINES:
        if e in mod.ENGINE.split()[0:3] or mod.ENGINE.startswith(e):
            serves[e].append(pid)
    doc = " ".join((mod.__doc__ or "").split())
    checks.append(
        {
            "property_id": pid,
            "quick_cmd": f"./check run {pid} --tier quick",
            "thorough_cmd": f"./check run {pid} --tier thorough",
            "evidence_file": f"evidence/{pid}.json",
            "replay_cmd_template": "./check replay {path}",
            "engine": eng,
            "level_claimed": {
                "category": mod.LEVEL,
                "text": doc[:1500],
                "design_ref": f"DESIGN.md section 3/{pid}",
            },
            "level_note": "; ".join(getattr(mod, "ASSUMPTIONS", [])) or "trusts the reference model in mc/ref",
            "technique": getattr(mod, "TECHNIQUE", "bounded exhaustive enumeration of executions of the real code (" + mod.ENGINE[:120] + ")"),
        }
    )
manifest = {
    "version": 1,
    "setup_cmd": "cd /verif && /venv/bin/python -m compileall -q mc && ./check selftest",
    "hooks": {
        "guard": "PASQAL_IO_EMULATORS_VERIF",
        "enable": "no in-source hooks: every seam is a harness-level interposer installed at run time by the check (mc/seams.py); checks import /repo's working tree through /venv's editable install, nothing is cached between runs",
        "baseline_off_cmd": "cd /repo && /venv/bin/python -m pytest -ra -q -p no:cacheprovider --timeout=900 --continue-on-collection-errors",
        "source_commits": [],
        "add_only": True,
    },
    "engines": [
        {"name": k, "path": "mc/core.py", "kind_free_text": v, "serves_properties": serves[k]} for k, v in ENGINES.items()
    ],
    "checks": checks,
    "not_applicable": [
        {"property_id": pid, "reason": pending.get(pid, "check under construction in this session; not claimed yet")}
        for pid in all_ids
        if pid not in present
    ],
    "notes": "All checks are direct bounded-exhaustive exploration of the implementation (no sampling). VERIF_SEED only selects generic numeric values; exploration structure and verdict do not depend on it. Default worker count min(14, cores) (VERIF_JOBS overrides); every violation is re-confirmed twice in fresh processes before it is printed.",
}
(ROOT / "MANIFEST.json").write_text(json.dumps(manifest, indent=1))
print("checks", len(checks), "not_applicable", len(manifest["not_applicable"]))
