#!/bin/bash
# finalize_mutation.sh <ID> <mK> <checks,comma> <prop> <name> <needs...> : make sure checks and tests were both run, then keep under /verif/seeded
id=$1; mk=$2; checks=$3; prop=$4; name=$5; shift 5
wt=/tmp/wt/$id
has() { /venv/bin/python -c "import json,sys; d=json.load(open('$wt/_out/${mk}_confirm.json')); sys.exit(0 if d.get('$1') else 1)" 2>/dev/null; }
has checks || /venv/bin/python /verif/tools/try_mutation.py $wt $mk $checks > /dev/null 2>&1
has tests || /venv/bin/python /verif/tools/try_mutation.py $wt $mk "" --tests > /dev/null 2>&1
/venv/bin/python /verif/tools/keep_mutation.py $wt $mk $prop $name "$@"
/venv/bin/python -c "
import json; d=json.load(open('/verif/seeded/$name/meta.json')); print('$name', d['confirmed']['demo_exit_on_clean_tree'], d['confirmed']['demo_exit_with_change'], d['confirmed']['stable_tests_failed_with_change'], {k:v['exit'] for k,v in d['checks_run'].items()})"
