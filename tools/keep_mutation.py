"""keep a confirmed seeded change: keep_mutation.py <worktree> <mK> <property> <name> <needs...>"""
import json, os, shutil, sys

wt, mk, prop, name = sys.argv[1:5]
needs = " ".join(sys.argv[5:])
dst = f"/verif/seeded/{name}"
os.makedirs(dst, exist_ok=True)
shutil.copy(f"{wt}/_out/{mk}.diff", f"{dst}/patch.diff")
shutil.copy(f"{wt}/_out/{mk}_demo.py", f"{dst}/demo.py")
if os.path.exists(f"{wt}/_out/{mk}_notes.md"):
    shutil.copy(f"{wt}/_out/{mk}_notes.md", f"{dst}/notes.md")
c = json.load(open(f"{wt}/_out/{mk}_confirm.json"))
t = c.get("tests", {})
meta = {
    "id": name,
    "property": prop,
    "origin": "independent sub-agent given only the property text and a scratch worktree",
    "needs_to_manifest": needs,
    "confirmed": {
        "demo_exit_on_clean_tree": c["demo_clean_rc"],
        "demo_exit_with_change": c["demo_mutated_rc"],
        "test_suite_cmd": "OMP_NUM_THREADS=1 /venv/bin/python -m pytest -q -p no:cacheprovider --timeout=900 -n 4 test   (in the scratch worktree, change applied)",
        "test_suite_tail": t.get("tail", "")[-160:],
        "stable_tests_failed_with_change": t.get("stable_failed"),
        "stable_tests_not_passed": t.get("stable_missing"),
        "other_failures (fail on the unchanged tree too)": [f for f in t.get("failed", []) if f not in (t.get("stable_failed") or [])],
    },
    "checks_run": {k: {"exit": v["rc"], "lines": v["lines"][:3]} for k, v in c.get("checks", {}).items()},
    "how_to_run": "git -C /repo apply /verif/seeded/%s/patch.diff && (cd /verif && ./check run %s --tier quick); git -C /repo checkout -- ." % (name, prop),
}
json.dump(meta, open(f"{dst}/meta.json", "w"), indent=1)
print("kept", dst)
