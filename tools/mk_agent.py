"""print the sub-agent prompt for a property and create its worktree: mk_agent.py C05 [k] [suffix]"""
import json, subprocess, sys
pid = sys.argv[1]; k = int(sys.argv[2]) if len(sys.argv) > 2 else 2
suffix = sys.argv[3] if len(sys.argv) > 3 else ""
wt = f"/tmp/wt/{pid}{suffix}"
props = {json.loads(l)["id"]: json.loads(l) for l in open("/verif/properties.jsonl")}
p = props[pid]
subprocess.run(["git", "-C", "/repo", "worktree", "add", "-q", "--detach", wt, "HEAD"], check=True)
t = open("/verif/tools/agent_prompt.txt").read()
t = t.replace("{WT}", wt).replace("{ID}", pid).replace("{TITLE}", p["title"]).replace("{STATEMENT}", p["statement"])
t = t.replace("{QUANT}", p["quantifier"]["text"]).replace("{FILES}", ", ".join(p["anchors"]["files"]))
t = t.replace("{K}", str(k)).replace("{M3}", ", m3" if k >= 3 else "")
print(t)
