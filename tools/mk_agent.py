"""print the sub-agent prompt for a property and create its worktree: mk_agent.py C05 [k] [suffix]"""
import json, subprocess, sys
pid = sys.argv[1]; k = int(sys.argv[2]) if len(sys.argv) > 2 else 2
suffix = sys.argv[3] if len(sys.argv) > 3 else ""
wt = f"/tmp/wt/{pid}{suffix}"
props = {json.loads(l)["id"]: json.loads(l) for l in open("/verif/properties.jsonl")}
p = props[pid]
subprocess.run(["git", "-C", "/repo", "worktree", "add", "-q", "--detach", wt, "HEAD"], check=True)
t = open("/verif/tools/agent_prompt.txt").read()
t = t.replace("{WT}", wt).replace("{ID}", pid).replace("{TITLE}", p["title"]).replace("{STATEMENT}", p["statement"])
t = t.replace("{QUANT}", p["quantifier"]["text"]).replace("{FILES}", ", ".join(p["anchors"]["files"]))
t = t.replace("{K}", str(k)).replace("{M3}", ", m3" if k >= 3 else "")
if suffix:
    t += """
Additional guidance for this round: other developers have already produced the obvious single-line regressions for this property (wrong index, swapped argument, dropped term, off-by-one in one function). Aim for something of a DIFFERENT kind, for example:
 - two cooperating sites that each look fine alone (a helper changes its contract slightly and one caller relies on the old one);
 - state carried between calls or steps (a cache, a memoised value, an object reused across time steps / trajectories / runs) that goes stale only for a particular sequence of operations;
 - an interaction between two features that are each tested separately (e.g. qubit reordering x SLM mask x noise x initial state x dark atoms x evaluation-time placement x DMRG);
 - boundary sizes and positions (1 or 2 atoms, first / last time step, first / last site, exactly-equal values);
 - a change that only matters for a non-default configuration value.
"""
if suffix.startswith("r3"):
    t += """
Two earlier rounds by other developers already produced, for this property, regressions of these kinds: wrong index / swapped argument / dropped term; stale caches and memoised values; objects reused across steps, trajectories or runs; a tensor of the caller changed in place; two cooperating sites; an interaction of two separately tested features; a non-default configuration value; 1-2 atom boundaries. Aim for YET ANOTHER kind, for example:
 - the floating-point edge of a formula (cancellation, underflow / overflow of an intermediate product, a tolerance compared in absolute instead of relative terms, float32 sneaking in, an integer division);
 - an error path: what the objects look like after an exception was raised and caught by the caller, and the next call;
 - an equivalent spelling of the same input (string vs enum, list vs tuple vs tensor vs numpy array, int vs float, negative index, numpy scalar, 0-d tensor) that takes another branch;
 - ordering assumptions (dict / set iteration order, sorted vs insertion order, atom names that do not sort like their positions);
 - something that only shows with 3 levels per atom (leakage), the XY basis, a density matrix, or complex phases, where the 2-level real case is symmetric and hides it;
 - the last / first element of a loop (final time step, final sweep, last site) or an empty collection;
 - quantities that are only reported (statistics, result times, tags, atom order) rather than computed with.
"""
print(t)
