"""print the sub-agent prompt for a property and create its worktree: mk_agent.py C05 [k] [suffix]"""
import json, subprocess, sys
pid = sys.argv[1]; k = int(sys.argv[2]) if len(sys.argv) > 2 else 2
suffix = sys.argv[3] if len(sys.argv) > 3 else ""
wt = f"/tmp/wt/{pid}{suffix}"
props = {json.loads(l)["id"]: json.loads(l) for l in open("/verif/properties.jsonl")}
p = props[pid]
subprocess.run(["git", "-C", "/repo", "worktree", "add", "-q", "--detach", wt, "HEAD"], check=True)
t = open("/verif/tools/agent_prompt.txt").read()
t = t.replace("{WT}", wt).replace("{ID}", pid).replace("{TITLE}", p["title"]).replace("{STATEMENT}", p["statement"])
t = t.replace("{QUANT}", p["quantifier"]["text"]).replace("{FILES}", ", ".join(p["anchors"]["files"]))
t = t.replace("{K}", str(k)).replace("{M3}", ", m3" if k >= 3 else "")
if suffix:
    t += """
Additional guidance for this round: other developers have already produced the obvious single-line regressions for this property (wrong index, swapped argument, dropped term, off-by-one in one function). Aim for something of a DIFFERENT kind, for example:
 - two cooperating sites that each look fine alone (a helper changes its contract slightly and one caller relies on the old one);
 - state carried between calls or steps (a cache, a memoised value, an object reused across time steps / trajectories / runs) that goes stale only for a particular sequence of operations;
 - an interaction between two features that are each tested separately (e.g. qubit reordering x SLM mask x noise x initial state x dark atoms x evaluation-time placement x DMRG);
 - boundary sizes and positions (1 or 2 atoms, first / last time step, first / last site, exactly-equal values);
 - a change that only matters for a non-default configuration value.
"""
print(t)
