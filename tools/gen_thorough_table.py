"""rewrite the thorough-tier table in DESIGN.md (section 8.7) from the logs of background sweeps: gen_thorough_table.py <log> [<log> ...] (later logs win)"""
import re, sys

rows = {}
for f in sys.argv[1:]:
    for line in open(f):
        m = re.match(r"\[(C\d+)\] tier=thorough seed=(\d+) cases=(\d+) distinct=\d+ states=(\d+) transitions=(\d+) outcomes=(\d+) violations=(\d+) known=(\d+) exhaustive=(\w+) wall=([\d.]+)s rc=(\d)", line)
        if m:
            rows[m.group(1)] = m.groups()
out = ["| id | cases | states | transitions | distinct outcomes | new violations | known findings hit | complete | wall s (8 workers, shared machine) | exit |", "|---|---|---|---|---|---|---|---|---|---|"]
for k in sorted(rows):
    _, seed, cases, states, trans, outc, viol, known, exh, wall, rc = rows[k]
    out.append(f"| {k} | {cases} | {states} | {trans} | {outc} | {viol} | {known} | {exh} | {wall} | {rc} |")
s = open("/verif/DESIGN.md").read()
block = "<!-- THOROUGH-TABLE-BEGIN -->\n" + "\n".join(out) + "\n<!-- THOROUGH-TABLE-END -->"
if "<!-- THOROUGH-TABLE-BEGIN -->" in s:
    s = re.sub(r"<!-- THOROUGH-TABLE-BEGIN -->.*<!-- THOROUGH-TABLE-END -->", block, s, flags=re.S)
else:
    s += "\n### 8.7 Thorough tier as last swept (background runs of the registered thorough commands on the final check code; not evidence files)\n\n" + block + "\n"
open("/verif/DESIGN.md", "w").write(s)
print(len(rows), "rows; missing:", [f"C{i:02d}" for i in range(1, 35) if f"C{i:02d}" not in rows])
