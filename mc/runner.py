"""
Drive the real backends from JSON-able specs and compute the reference results for the same spec.
"""
from __future__ import annotations

import contextlib
import io
import logging

import numpy as np
import torch

from mc import pulser_kit as kit
from mc.ref import pulser_ref as R
from mc.ref.dense_ham import dense_hamiltonian


def amplitudes_state(n: int, kind: str, seed: int = 0, dim: int = 2) -> np.ndarray:
    """initial-state alphabet: 'product:<digits>' | 'seeded' | 'ghz'."""
    d = dim**n
    if kind.startswith("product:"):
        digits = kind.split(":")[1]
        idx = int(digits, dim)
        v = np.zeros(d, dtype=complex)
        v[idx] = 1
        return v
    if kind == "ghz":
        v = np.zeros(d, dtype=complex)
        v[0] = v[-1] = 1 / np.sqrt(2)
        return v
    r = np.random.RandomState(7919 + seed)
    v = r.normal(size=d) + 1j * r.normal(size=d)
    return v / np.linalg.norm(v)


def sv_observables(eval_times, n, extra_state: np.ndarray | None = None, with_state=True):
    import emu_sv as sv

    ev = list(eval_times)
    obs = [
        sv.Occupation(evaluation_times=ev),
        sv.CorrelationMatrix(evaluation_times=ev),
        sv.Energy(evaluation_times=ev),
        sv.EnergyVariance(evaluation_times=ev),
        sv.EnergySecondMoment(evaluation_times=ev),
    ]
    if with_state:
        obs.append(sv.StateResult(evaluation_times=ev))
    return obs


def run_sv(spec, cfg, observables=None, noise=None, seq=None):
    import emu_sv as sv

    seq = seq if seq is not None else kit.build_sequence(spec)
    n = len(spec["coords"])
    kw = {}
    if cfg.get("init"):
        vec = amplitudes_state(n, cfg["init"], cfg.get("seed", 0))
        if cfg.get("init_via"):
            # the same state given through the public amplitude dictionary, with the two-level basis spelled in either order
            eig = ("r", "g") if cfg["init_via"] == "amplitudes_rg" else ["g", "r"]
            amps = {np.binary_repr(i, n).replace("1", "r").replace("0", "g"): complex(a) for i, a in enumerate(vec) if abs(a) > 0}
            kw["initial_state"] = sv.StateVector.from_state_amplitudes(eigenstates=eig, amplitudes=amps)
        else:
            kw["initial_state"] = sv.StateVector(torch.tensor(vec, dtype=torch.complex128), gpu=False)
    if cfg.get("interaction_matrix") is not None:
        kw["interaction_matrix"] = cfg["interaction_matrix"]
    if noise is not None:
        kw["noise_model"] = noise
    for k in ("interaction_cutoff", "n_trajectories", "default_evaluation_times", "prefer_device_noise_model"):
        if k in cfg:
            kw[k] = cfg[k]
    config = sv.SVConfig(
        dt=cfg.get("dt", 10),
        krylov_tolerance=cfg.get("krylov_tolerance", 1e-10),
        with_modulation=cfg.get("with_modulation", False),
        observables=observables if observables is not None else sv_observables(cfg["eval"], n),
        log_level=logging.CRITICAL,
        gpu=False,
        **kw,
    )
    with contextlib.redirect_stdout(io.StringIO()):
        return sv.SVBackend(seq, config=config).run(), seq


def mps_observables(eval_times, with_state=False):
    import emu_mps as m

    ev = list(eval_times)
    obs = [
        m.Occupation(evaluation_times=ev),
        m.CorrelationMatrix(evaluation_times=ev),
        m.Energy(evaluation_times=ev),
        m.EnergyVariance(evaluation_times=ev),
        m.EnergySecondMoment(evaluation_times=ev),
    ]
    if with_state:
        obs.append(m.StateResult(evaluation_times=ev))
    return obs


def mps_initial_state(n, kind, seed=0, dim=2, eigenstates=("r", "g")):
    import emu_mps as m

    v = amplitudes_state(n, kind, seed, dim)
    # build through public constructor from amplitudes: emulator basis index 0 = g (or first non-r)
    letters = {2: "gr", 3: "grx"}[dim] if "r" in eigenstates else {2: "du", 3: "dux"}[dim]
    amps = {}
    for idx, a in enumerate(v):
        if abs(a) > 0:
            digits = np.base_repr(idx, dim).zfill(n)
            amps["".join(letters[int(c)] for c in digits)] = complex(a)
    return m.MPS.from_state_amplitudes(eigenstates=eigenstates, amplitudes=amps)


def run_mps(spec, cfg, observables=None, noise=None, seq=None):
    import emu_mps as m

    seq = seq if seq is not None else kit.build_sequence(spec)
    n = len(spec["coords"])
    kw = {}
    if cfg.get("init"):
        kw["initial_state"] = mps_initial_state(n, cfg["init"], cfg.get("seed", 0), eigenstates=("g", "r") if cfg.get("init_via") == "amplitudes_gr" else ("r", "g"))
    if cfg.get("interaction_matrix") is not None:
        kw["interaction_matrix"] = cfg["interaction_matrix"]
    if noise is not None:
        kw["noise_model"] = noise
    for k in (
        "interaction_cutoff",
        "n_trajectories",
        "default_evaluation_times",
        "prefer_device_noise_model",
        "max_bond_dim",
        "max_krylov_dim",
        "extra_krylov_tolerance",
        "autosave_dt",
        "autosave_prefix",
    ):
        if k in cfg:
            kw[k] = cfg[k]
    if cfg.get("solver") == "dmrg":
        kw["solver"] = m.Solver.DMRG
    config = m.MPSConfig(
        dt=cfg.get("dt", 10),
        precision=cfg.get("precision", 1e-8),
        with_modulation=cfg.get("with_modulation", False),
        observables=observables if observables is not None else mps_observables(cfg["eval"], cfg.get("with_state", False))[:: -1 if cfg.get("obs_order") == "reversed" else 1],
        optimize_qubit_ordering=cfg.get("ordering", False),
        log_level=logging.CRITICAL,
        num_gpus_to_use=0,
        **kw,
    )
    with contextlib.redirect_stdout(io.StringIO()):
        return m.MPSBackend(seq, config=config).run(), seq


# ------------------------------------------------------------------------------------------------
# reference
# ------------------------------------------------------------------------------------------------


class Ref:
    """Reference results of a noiseless run: states and observables at every evaluation time."""

    def __init__(self, spec, cfg, slm_rule="start", Ls=None, rho0=None, dim=2):
        seq = kit.build_sequence(spec)
        self.seq = seq
        n = len(spec["coords"])
        self.n = n
        self.dim = dim
        mod = cfg.get("with_modulation", False)
        T = float(seq.get_duration(include_fall_time=mod))
        self.T = T
        evs = sorted(set(float(e) for e in cfg["eval"]))
        self.times = R.grid(T, cfg.get("dt", 10), evs)
        ids = list(seq.register.qubit_ids)
        self.om, self.de, self.ph = R.midpoint_drive(seq, mod, self.times, ids)
        kind = "xy" if spec.get("basis") == "xy" else "rydberg"
        self.kind = kind
        if cfg.get("interaction_matrix") is not None:
            U = np.array(cfg["interaction_matrix"], dtype=float)
            if U.ndim == 3:
                U = U[0]
        else:
            U = R.interaction(seq, kind)
        cut = cfg.get("interaction_cutoff", 0.0)
        U = np.where(np.abs(U) < cut, 0.0, U)
        np.fill_diagonal(U, 0.0)
        self.U = U
        idx, end = R.slm(seq)
        Um = R.masked(U, idx)
        self.slm_end = end
        self.straddle = False

        def U_of_step(k):
            a, b = self.times[k], self.times[k + 1]
            if a < end < b - 0:
                if end - a > 1e-9 and b - end > 1e-9:
                    self.straddle = True
            t = a if slm_rule == "start" else 0.5 * (a + b)
            return Um if t < end else U

        self.Hs = R.step_hamiltonians(self.om, self.de, self.ph, U_of_step, kind=kind, dim=dim)
        if rho0 is not None or Ls:
            if rho0 is None:
                psi0 = np.zeros(dim**n, dtype=complex)
                psi0[0] = 1
                if cfg.get("init"):
                    psi0 = amplitudes_state(n, cfg["init"], cfg.get("seed", 0), dim)
                rho0 = np.outer(psi0, psi0.conj())
            self.states = R.propagate_dm(rho0, self.Hs, Ls or [], self.times)
        else:
            psi0 = np.zeros(dim**n, dtype=complex)
            psi0[0] = 1
            if cfg.get("init"):
                psi0 = amplitudes_state(n, cfg["init"], cfg.get("seed", 0), dim)
                psi0 = psi0 / np.linalg.norm(psi0)
            self.states = R.propagate_sv(psi0, self.Hs, self.times)

    def index_of(self, rel_time: float) -> int:
        t = rel_time * self.T
        k = int(np.argmin([abs(t - x) for x in self.times]))
        assert abs(self.times[k] - t) < 1e-6 * max(1.0, self.T), (t, self.times)
        return k

    def H_at(self, k: int):
        """Hamiltonian the emulators associate with target time k: the step that just ended."""
        return self.Hs[max(k - 1, 0)]

    def observables(self, rel_time: float) -> dict:
        k = self.index_of(rel_time)
        s = self.states[k]
        H = self.H_at(k)
        e = R.expect(s, H).real
        e2 = R.expect(s, H @ H).real
        return {
            "state": s,
            "occupation": R.occupation(s, self.n, self.dim),
            "correlation_matrix": R.correlation(s, self.n, self.dim),
            "energy": e,
            "energy_second_moment": e2,
            "energy_variance": e2 - e**2,
        }

    def max_norm_H(self):
        return max(np.linalg.norm(H, 2) for H in self.Hs)


def get_at(results, tag, t, tol=1e-9):
    """Result stored for `tag` at the relative time closest to t (Pulser stores the backend's float,
    which may differ from the requested one in the last ulp)."""
    times = results.get_result_times(tag)
    k = min(range(len(times)), key=lambda i: abs(times[i] - t))
    if abs(times[k] - t) > tol:
        raise KeyError(f"{tag} not available at {t}: {times}")
    return results.get_result(tag, times[k])


def to_np(x):
    if isinstance(x, torch.Tensor):
        return x.detach().cpu().numpy()
    return np.asarray(x)


WORST = {"state": 0.0, "obs": 0.0}


def compare_results(results, ref: Ref, eval_times, tol_state, tol_obs, tags=None, state_getter=None):
    """Return list of mismatch strings ('' if none).  WORST holds the largest errors seen by the last call."""
    bad = []
    WORST["state"] = WORST["obs"] = 0.0
    tags = tags or ["occupation", "correlation_matrix", "energy", "energy_variance", "energy_second_moment"]
    for tag in tags + (["state"] if state_getter else []):
        if tag not in results.get_result_tags():
            bad.append(f"missing tag {tag}")
            continue
        times = results.get_result_times(tag)
        want = sorted(set(float(e) for e in eval_times))
        if len(times) != len(want) or any(abs(a - b) > 1e-9 for a, b in zip(times, want)):
            bad.append(f"{tag}: result times {times} != requested {want}")
            continue
        for t in want:
            exp = ref.observables(t)
            got = get_at(results, tag, t)
            if tag == "state":
                g = state_getter(got)
                ov = abs(np.vdot(exp["state"], g)) if g.ndim == 1 else None
                err = np.linalg.norm(g - exp["state"])
                WORST["state"] = max(WORST["state"], float(err))
                if not err <= tol_state:
                    bad.append(f"state at t={t}: |psi-ref|={err:.3e} > {tol_state:.1e}")
            else:
                g = to_np(got).astype(float) if not np.iscomplexobj(to_np(got)) else to_np(got).real
                e = np.asarray(exp[tag], dtype=float)
                scale = 1.0
                if tag.startswith("energy"):
                    scale = max(1.0, ref.max_norm_H() ** (2 if tag != "energy" else 1))
                if g.shape != e.shape:
                    bad.append(f"{tag} at t={t}: shape {g.shape} != {e.shape}")
                    continue
                err = np.abs(g - e).max() / scale
                WORST["obs"] = max(WORST["obs"], float(err))
                if not err <= tol_obs:
                    bad.append(f"{tag} at t={t}: got {np.round(g, 6).tolist()} ref {np.round(e, 6).tolist()} err={err:.3e} > {tol_obs:.1e}")
    return bad
