"""
Small Pulser sequence / register / noise-model builders driven by JSON-able specs, so that a
case written into a replay artefact rebuilds exactly the same sequence.

spec = {
  "coords": [[x, y], ...],            # um
  "ids":    ["q0", ...] | None,       # insertion order == list order
  "device": "mock" | "mod",           # "mod": virtual device whose channels have a modulation bandwidth
  "basis":  "rydberg" | "xy" | "raman" | "rydberg_local" | "mixed",
  "pulses": [ {"amp": wf, "det": wf, "phase": p, ["targets": [ids]]}, ...],
  "dmm":    {"weights": [..per atom..], "wfs": [wf, ...]} | None,
  "slm":    [indices] | None,
  "mag":    [bx, by, bz] | None       # XY only
}
wf = ["const", T, v] | ["ramp", T, a, b] | ["blackman", T, area] | ["interp", T, [values]]
     | ["comp", wf, wf, ...]
"""
from __future__ import annotations

import dataclasses
import warnings

import numpy as np

warnings.filterwarnings("ignore")

import pulser  # noqa: E402
from pulser import Pulse, Register, Sequence  # noqa: E402
from pulser.channels import DMM, Microwave, Raman, Rydberg  # noqa: E402
from pulser.devices import MockDevice, VirtualDevice  # noqa: E402
from pulser.waveforms import (  # noqa: E402
    BlackmanWaveform,
    CompositeWaveform,
    ConstantWaveform,
    InterpolatedWaveform,
    RampWaveform,
)

_MOD_DEVICE = None


def mod_device():
    global _MOD_DEVICE
    if _MOD_DEVICE is None:
        _MOD_DEVICE = VirtualDevice(
            name="VerifModDevice",
            dimensions=2,
            rydberg_level=60,
            channel_objects=(
                Rydberg.Global(None, None, mod_bandwidth=8.0),
                Rydberg.Local(None, None, mod_bandwidth=8.0, max_targets=4),
                Microwave.Global(None, None, mod_bandwidth=8.0),
                Raman.Global(None, None, mod_bandwidth=8.0),
            ),
            dmm_objects=(DMM(mod_bandwidth=8.0),),
            supports_slm_mask=True,
            interaction_coeff_xy=3700.0,
        )
    return _MOD_DEVICE


def device(name: str):
    return MockDevice if name == "mock" else mod_device()


def wf(spec):
    kind = spec[0]
    if kind == "const":
        return ConstantWaveform(spec[1], spec[2])
    if kind == "ramp":
        return RampWaveform(spec[1], spec[2], spec[3])
    if kind == "blackman":
        return BlackmanWaveform(spec[1], spec[2])
    if kind == "interp":
        return InterpolatedWaveform(spec[1], spec[2])
    if kind == "comp":
        return CompositeWaveform(*[wf(s) for s in spec[1:]])
    raise ValueError(kind)


def register(spec) -> Register:
    ids = spec.get("ids") or [f"q{i}" for i in range(len(spec["coords"]))]
    return Register({i: np.array(c, dtype=float) for i, c in zip(ids, spec["coords"])})


def build_sequence(spec) -> Sequence:
    reg = register(spec)
    dev = device(spec.get("device", "mock"))
    seq = Sequence(reg, dev)
    basis = spec.get("basis", "rydberg")
    ids = list(reg.qubit_ids)
    if basis == "rydberg":
        seq.declare_channel("ch", "rydberg_global")
    elif basis == "xy":
        seq.declare_channel("ch", "mw_global")
        if spec.get("mag") is not None:
            seq.set_magnetic_field(*spec["mag"])
    elif basis == "raman":
        seq.declare_channel("ch", "raman_global")
    elif basis == "rydberg_local":
        seq.declare_channel("ch", "rydberg_local", initial_target=ids[spec.get("initial_target", 0)])
    elif basis == "mixed":
        seq.declare_channel("ch", "rydberg_global")
        seq.declare_channel("ch2", "raman_global")
    else:
        raise ValueError(basis)
    if spec.get("local_channel"):
        seq.declare_channel("loc", "rydberg_local", initial_target=ids[spec["local_channel"]["target"]])
    dmm = spec.get("dmm")
    if dmm:
        dm = reg.define_detuning_map({ids[i]: w for i, w in enumerate(dmm["weights"]) if w != 0 or True})
        seq.config_detuning_map(dm, "dmm_0")
    if spec.get("slm") is not None:
        seq.config_slm_mask([ids[i] for i in spec["slm"]])
    for p in spec["pulses"]:
        ch = p.get("ch", "ch")
        if "delay" in p:
            seq.delay(p["delay"], ch)
            continue
        if "targets" in p and p["targets"] is not None:
            seq.target([ids[i] for i in p["targets"]], ch)
        seq.add(Pulse(wf(p["amp"]), wf(p["det"]), p.get("phase", 0.0)), ch, protocol=p.get("protocol", "min-delay"))
    if dmm:
        for w in dmm["wfs"]:
            seq.add_dmm_detuning(wf(w), "dmm_0")
    return seq


def noise_model(spec: dict | None):
    if not spec:
        return None
    kw = dict(spec)
    if "eff_noise_opers" in kw:
        kw["eff_noise_opers"] = [np.array(m, dtype=complex) if not isinstance(m, np.ndarray) else m for m in kw["eff_noise_opers"]]
    return pulser.NoiseModel(**kw)


# -------- register shapes used by several properties (um; 6-8 um keeps U ~ 1-100 rad/us) -------

SHAPES = {
    "one": [[0.0, 0.0]],
    "pair": [[0.0, 0.0], [7.0, 0.0]],
    "bent3": [[0.0, 0.0], [7.0, 0.0], [11.0, 6.0]],
    "tri3": [[0.0, 0.0], [8.0, 0.0], [4.0, 6.9282]],
    "line3": [[0.0, 0.0], [7.0, 0.0], [14.5, 0.0]],
    "rect4": [[0.0, 0.0], [7.0, 0.0], [0.0, 8.0], [7.0, 8.0]],
    "zig4": [[0.0, 0.0], [6.5, 2.0], [13.0, -1.0], [19.0, 2.5]],
    "line4": [[0.0, 0.0], [7.0, 0.0], [14.5, 0.0], [21.0, 0.0]],
}


def chain(n: int, a: float = 7.0):
    return [[a * i, 0.0] for i in range(n)]


def ladder(n: int, a: float = 7.0):
    return [[a * (i // 2), a * (i % 2) * 1.1] for i in range(n)]


def ring(n: int, a: float = 7.0):
    r = a / (2 * np.sin(np.pi / n))
    return [[float(r * np.cos(2 * np.pi * k / n)), float(r * np.sin(2 * np.pi * k / n))] for k in range(n)]
