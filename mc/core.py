"""
Core of the bounded exhaustive explorer.

A property module (mc/props/Cxx.py) exposes

    ID, LEVEL ("model_checking" | "fault_enumeration"), ENGINE, RULE, ASSUMPTIONS
    bounds(tier, seed)      -> dict   (alphabets / bounds actually used, for the evidence)
    cases(tier, seed)       -> iterable of JSON-serialisable case dicts, simplest first;
                               the iterable must be the COMPLETE space inside the bound
    run_case(case)          -> result dict (see `result`) ; runs the REAL code of /repo

Everything is enumeration: the driver walks every case, the per-case explorer (BFS over
operation histories, DFS over environment answers, crash-point loop) walks every state inside
the case, and the evidence records exactly what was walked.  Nothing is sampled.

Exit codes: 0 property held (known findings are printed, not alarms), 1 violation,
2 harness error (non-determinism, crash inside the machinery) - never a VIOLATION line.
"""

from __future__ import annotations

import hashlib
import importlib
import itertools
import json
import multiprocessing as mp
import os
import sys
import time
import traceback
from pathlib import Path
from typing import Any, Iterable

ROOT = Path(__file__).resolve().parent.parent
EVIDENCE_DIR = ROOT / "evidence"
REPLAY_DIR = ROOT / "replays"
KNOWN_FINDINGS = ROOT / "known_findings.json"
if os.environ.get("VERIF_REPO"):
    # mutation testing against a scratch tree: never touch the committed evidence / replays, which must come from /repo itself
    import tempfile

    _MUT = Path(tempfile.gettempdir()) / "verif-mutation-runs"
    EVIDENCE_DIR = _MUT / "evidence"
    REPLAY_DIR = _MUT / "replays"

os.environ.setdefault("PYTHONHASHSEED", "0")
os.environ.setdefault("OMP_NUM_THREADS", "1")
os.environ.setdefault("MKL_NUM_THREADS", "1")
os.environ.setdefault("PASQAL_IO_EMULATORS_VERIF", "1")


def _quiet_torch() -> None:
    import warnings

    warnings.filterwarnings("ignore")
    import logging

    logging.disable(logging.CRITICAL)
    import torch

    torch.set_num_threads(1)
    try:
        torch.set_num_interop_threads(1)
    except RuntimeError:
        pass


# --------------------------------------------------------------------------------------------
# results
# --------------------------------------------------------------------------------------------


def result(
    ok: bool,
    *,
    outcome: Any = "",
    sig: str | None = None,
    msg: str = "",
    states: int = 1,
    transitions: int = 1,
    nontrivial: bool = True,
    extra: dict | None = None,
) -> dict:
    """
    ok          the property held on everything explored inside this case
    outcome     short digest of what was observed (for distinct-outcome counting and the
                determinism self-test); floats must be rounded by the caller
    sig         for a violation: the signature that known_findings.json is keyed by
    states      distinct states visited inside the case (>= 1: the case itself)
    transitions real calls of code under test
    """
    return {
        "ok": bool(ok),
        "outcome": digest(outcome),
        "sig": sig,
        "msg": msg,
        "states": int(states),
        "transitions": int(transitions),
        "nontrivial": bool(nontrivial),
        "extra": extra or {},
    }


def digest(obj: Any) -> str:
    if isinstance(obj, str) and len(obj) <= 40:
        return obj
    return hashlib.sha1(json.dumps(obj, sort_keys=True, default=str).encode()).hexdigest()[:16]


def rnd(x: Any, nd: int = 6) -> Any:
    """Round nested numeric data for digests."""
    import numpy as np

    try:
        import torch

        if isinstance(x, torch.Tensor):
            x = x.detach().cpu().numpy()
    except ImportError:  # pragma: no cover
        pass
    if isinstance(x, np.ndarray):
        if np.iscomplexobj(x):
            return [rnd(x.real, nd), rnd(x.imag, nd)]
        return np.round(x.astype(float), nd).tolist()
    if isinstance(x, complex):
        return [round(x.real, nd), round(x.imag, nd)]
    if isinstance(x, float):
        return round(x, nd)
    if isinstance(x, (list, tuple)):
        return [rnd(v, nd) for v in x]
    if isinstance(x, dict):
        return {str(k): rnd(v, nd) for k, v in x.items()}
    return x


# --------------------------------------------------------------------------------------------
# worker side
# --------------------------------------------------------------------------------------------

_MOD = None


def _load(prop_id: str):
    global _MOD
    if _MOD is None or _MOD.ID != prop_id:
        _quiet_torch()
        _MOD = importlib.import_module(f"mc.props.{prop_id}")
    return _MOD


_PRISTINE: dict = {}


def _preimport() -> None:
    """Import (not run) everything the cases import lazily, so that the fresh forks start with warm sys.modules."""
    for name in (
        "scipy.linalg", "scipy.interpolate", "scipy.sparse.linalg", "pulser", "pulser.backend", "pulser_simulation",
        "emu_base", "emu_base.math", "emu_sv", "emu_mps", "emu_mps.hamiltonian", "emu_mps.solver_utils", "emu_mps.optimatrix",
        "mc.runner", "mc.seams", "mc.explore", "mc.autosave", "mc.mps_bfs", "mc.pulser_kit", "mc.ref.dense_ham", "mc.ref.noise_ref", "mc.ref.mps_dense",
    ):
        try:
            importlib.import_module(name)
        except Exception:  # noqa: BLE001 - a module that cannot be imported is the business of the case that needs it
            pass


def _reset_globals() -> None:
    """
    Module-level state outside the code under test that one execution can leak into the next (it would make a verdict depend on the
    order of the cases).  pulser-core 1.9.1: for an idle sequence SequenceSamples.eigenbasis returns the module-level list
    EIGENSTATES[...] itself and HamiltonianData._get_eigenbasis(with_leakage=True) appends "x" to it - permanently.
    """
    try:
        import pulser.channels.base_channel as bc
    except Exception:  # pragma: no cover
        return
    if "eig" not in _PRISTINE:
        _PRISTINE["eig"] = {k: [s for s in v if s != "x"] for k, v in bc.EIGENSTATES.items()}
    for k, v in _PRISTINE["eig"].items():
        bc.EIGENSTATES[k][:] = v


def _run_one(args: tuple[str, int, dict]) -> tuple[int, dict]:
    prop_id, idx, case = args
    mod = _load(prop_id)
    _reset_globals()
    try:
        res = mod.run_case(case)
    except HarnessError as e:
        res = result(False, sig="HARNESS", msg=f"harness error: {e}")
        res["harness"] = True
    except Exception as e:  # an escaped exception of the code under test is decided by the module;
        # anything arriving here is a bug in the machinery
        res = result(
            False, sig="HARNESS", msg="".join(traceback.format_exception(e))[-3000:]
        )
        res["harness"] = True
    return idx, res


class HarnessError(Exception):
    pass


def _run_isolated(items: list[tuple[str, int, dict]]) -> list[tuple[int, dict]]:
    """
    Execute the given cases one after the other in a FRESH fork of the calling process and return their results.
    The driver never executes case code itself, so every such fork starts from the same pristine interpreter state.  Used for the
    determinism self-test and to confirm violations: a failure that only shows after other cases ran in the same process (state the
    code under test carries from one run to the next) is reproduced by replaying the worker's history, then reported with it.
    """
    import pickle

    r, w = os.pipe()
    pid = os.fork()
    if pid == 0:
        code = 0
        try:
            os.close(r)
            out = [_run_one(it) for it in items]
            with os.fdopen(w, "wb") as f:
                pickle.dump(out, f)
        except BaseException:  # noqa: BLE001 - the parent turns the empty pipe into a harness error
            code = 1
        finally:
            os._exit(code)
    os.close(w)
    with os.fdopen(r, "rb") as f:
        data = f.read()
    _, status = os.waitpid(pid, 0)
    if not data:
        res = result(False, sig="HARNESS", msg=f"isolated child died without a result (wait status {status})")
        res["harness"] = True
        return [(it[1], dict(res)) for it in items]
    return pickle.loads(data)


_EXECUTED: list[int] = []  # indices of the cases this (long-lived) worker process has executed so far, in order


def _run_tracked(args: tuple[str, int, dict]) -> tuple[int, dict, list[int]]:
    """Pool entry point: run one case in the worker and, when it fails, say which cases the worker had executed before it."""
    idx, res = _run_one(args)
    before = list(_EXECUTED) if not res["ok"] else []
    _EXECUTED.append(idx)
    return idx, res, before


# --------------------------------------------------------------------------------------------
# known findings
# --------------------------------------------------------------------------------------------


def load_known(prop_id: str) -> dict[str, str]:
    if not KNOWN_FINDINGS.exists():
        return {}
    data = json.loads(KNOWN_FINDINGS.read_text())
    return {
        f["signature"]: f.get("what", "")
        for f in data.get("findings", [])
        if f["property"] == prop_id
    }


# --------------------------------------------------------------------------------------------
# driver
# --------------------------------------------------------------------------------------------


def run_check(prop_id: str, tier: str, seed: int, jobs: int | None = None) -> int:
    t0 = time.time()
    _quiet_torch()
    mod = _load(prop_id)
    _preimport()
    jobs = jobs or int(os.environ.get("VERIF_JOBS", "0")) or min(14, os.cpu_count() or 1)
    cases_iter: Iterable[dict] = mod.cases(tier, seed)
    budget_s = float(os.environ.get("VERIF_BUDGET_S", "0") or 0)

    known = load_known(prop_id)
    n = 0
    evaluations = 0
    states = transitions = nontrivial = 0
    outcomes: dict[str, int] = {}
    violations: list[tuple[int, dict, dict, list[int]]] = []
    harness_errors: list[tuple[int, dict, dict]] = []
    samples: list[Any] = []
    first_cases: list[tuple[int, dict, str]] = []
    capped = False
    seen_case_keys: set[str] = set()
    distinct_cases = 0

    def work():
        for i, c in enumerate(cases_iter):
            yield (prop_id, i, c)

    chunk = getattr(mod, "CHUNK", {}).get(tier, 1) if isinstance(
        getattr(mod, "CHUNK", None), dict
    ) else getattr(mod, "CHUNK", 1)

    keep: dict[int, dict] = {}
    max_keep = 200000

    def consume(it):
        nonlocal n, states, transitions, nontrivial, capped, distinct_cases, evaluations
        for idx, res, prefix in it:
            n += 1
            evaluations += int(res.get("extra", {}).get("evaluations", 1))
            states += res["states"]
            transitions += res["transitions"]
            outcomes[res["outcome"]] = outcomes.get(res["outcome"], 0) + 1
            if res["nontrivial"]:
                nontrivial += 1
            if not res["ok"]:
                if res.get("harness"):
                    harness_errors.append((idx, keep.get(idx, {}), res))
                else:
                    violations.append((idx, keep.get(idx, {}), res, prefix))
            if budget_s and time.time() - t0 > budget_s:
                capped = True
                break

    def tracked():
        for item in work():
            _, i, c = item
            key = digest(c)
            if key not in seen_case_keys:
                seen_case_keys.add(key)
            if len(keep) < max_keep:
                keep[i] = c
            if len(samples) < 3 or (i in (10, 100, 1000) and len(samples) < 6):
                samples.append(c)
            if len(first_cases) < 4:
                first_cases.append((i, c, ""))
            yield item

    if jobs == 1:
        # debugging aid: one forked child runs everything in order (the driver itself never executes case code)
        def serial():
            for item in tracked():
                ((idx, res),) = _run_isolated([item])
                yield idx, res, []

        consume(serial())
    else:
        import gc

        # keep the (large, torch-laden) parent heap out of the children's garbage collector: without this
        # every worker's first full collection copies the whole heap page by page (copy-on-write)
        gc.collect()
        gc.freeze()
        ctx = mp.get_context("fork")
        with ctx.Pool(jobs) as pool:
            consume(pool.imap_unordered(_run_tracked, tracked(), chunksize=chunk))
            pool.terminate()
    distinct_cases = len(seen_case_keys)

    # determinism self-test: re-run the first cases in this (fresh) process, compare digests
    det = 0
    nondet: list[str] = []
    for i, c, _ in first_cases:
        ((_, r1),) = _run_isolated([(prop_id, i, c)])
        ((_, r2),) = _run_isolated([(prop_id, i, c)])
        det += 1
        if r1["outcome"] != r2["outcome"] or r1["ok"] != r2["ok"]:
            nondet.append(json.dumps(c, default=str)[:300])

    rc = 0
    lines: list[str] = []
    REPLAY_DIR.mkdir(parents=True, exist_ok=True)
    violations.sort(key=lambda v: v[0])
    reported_sigs: set[str] = set()
    known_hit: dict[str, int] = {}
    new_violations = 0
    for idx, case, res, prefix in violations:
        sig = res["sig"] or "unspecified"
        if sig in known:
            known_hit[sig] = known_hit.get(sig, 0) + 1
            continue
        new_violations += 1
        if sig in reported_sigs or len(reported_sigs) >= 8:
            continue
        # confirm by replaying twice from the minimal artefact, each time in a fresh process
        item = (prop_id, idx, case)

        def fails(history):
            (*_, (_, ra)) = _run_isolated(history + [item])
            (*_, (_, rb)) = _run_isolated(history + [item])
            return not ra["ok"] and not rb["ok"] and ra["outcome"] == rb["outcome"] and not ra.get("harness")

        history: list[tuple[str, int, dict]] = []
        if not fails([]):
            # the case passes when it is the first thing a process does: does it fail after the cases its worker had executed before it?
            full = [(prop_id, p, keep[p]) for p in prefix if p in keep]
            if not full or not fails(full):
                harness_errors.append((idx, case, res))
                continue
            history = full
            for single in list(reversed(full))[:40]:  # shortest explanation first: one earlier run
                if fails([single]):
                    history = [single]
                    break
            while len(history) > 1 and fails(history[len(history) // 2 :]):  # otherwise keep halving while the later half suffices
                history = history[len(history) // 2 :]
        reported_sigs.add(sig)
        path = REPLAY_DIR / f"{prop_id}-{digest([sig, case, [h[2] for h in history]])}.json"
        artefact = {"property": prop_id, "signature": sig, "case": case, "message": res["msg"]}
        if history:
            artefact["history"] = [h[2] for h in history]
            artefact["note"] = "the case passes in a fresh process and fails after the cases of `history` ran in the same process: state is carried from one run to the next"
        path.write_text(json.dumps(artefact, indent=1, default=str))
        lines.append(f"VIOLATION property={prop_id} replay={path}")
        lines.append(f"  signature: {sig}")
        if history:
            lines.append(f"  ORDER-DEPENDENT: passes in a fresh process, fails after {len(history)} earlier case(s) ran in the same process")
        lines.append(f"  {res['msg'][:1500]}")
        rc = 1
    for sig, cnt in known_hit.items():
        print(f"KNOWN-FINDING: property={prop_id} {sig} :: {known[sig]} ({cnt} cases)")
    stale = [s for s in known if s not in known_hit]

    if nondet or harness_errors:
        for i, c, r in harness_errors[:5]:
            print(f"HARNESS-ERROR property={prop_id} case#{i}: {r['msg'][-1500:]}", file=sys.stderr)
            print(f"  case: {json.dumps(c, default=str)[:500]}", file=sys.stderr)
        for c in nondet:
            print(f"HARNESS-ERROR property={prop_id} non-deterministic case {c}", file=sys.stderr)
        if rc == 0:
            rc = 2

    wall = time.time() - t0
    exhaustive = (not capped) and bool(getattr(mod, "EXHAUSTIVE", True))
    bounds = mod.bounds(tier, seed) if hasattr(mod, "bounds") else {}
    evidence = {
        "property_id": prop_id,
        "tier": tier,
        "seed": seed,
        "level": mod.LEVEL,
        "coverage": {
            "states": max(states, 0),
            "transitions": max(transitions, 0),
            "traces_validated_against_impl": n,
            "evaluations": max(evaluations, n),
            "cases": n,
            "distinct_nontrivial": min(nontrivial, distinct_cases),
            "distinct_cases": distinct_cases,
            "distinct_outcomes": len(outcomes),
            "rule": mod.RULE,
            "samples": samples[:6],
            "exhaustive": exhaustive,
            "engine": getattr(mod, "ENGINE", ""),
            "bounds": bounds,
            "caps_hit": ["wall-clock budget VERIF_BUDGET_S"] if capped else [],
            "determinism_replays": det,
            "isolation": "cases run in long-lived forked workers; every violation and the determinism self-test are re-executed twice in fresh forks of the driver, which never executes case code; a violation that needs earlier cases of its worker to reproduce is reported with that history",
            "known_findings_hit": known_hit,
            "known_findings_not_reproduced": stale,
            "explanation": "direct exploration of the implementation: every trace is an execution "
            "of the real code, so traces_validated_against_impl == executions",
        },
        "assumptions": list(getattr(mod, "ASSUMPTIONS", [])),
        "wall_s": round(wall, 2),
        "violations": new_violations,
    }
    EVIDENCE_DIR.mkdir(parents=True, exist_ok=True)
    (EVIDENCE_DIR / f"{prop_id}.json").write_text(json.dumps(evidence, indent=1, default=str))

    for l in lines:
        print(l)
    print(
        f"[{prop_id}] tier={tier} seed={seed} cases={n} distinct={distinct_cases} states={states} "
        f"transitions={transitions} outcomes={len(outcomes)} violations={new_violations} "
        f"known={sum(known_hit.values())} exhaustive={exhaustive} wall={wall:.1f}s rc={rc}"
    )
    return rc


def replay(path: str) -> int:
    data = json.loads(Path(path).read_text())
    prop_id = data["property"]
    for k, h in enumerate(data.get("history", [])):  # earlier runs of the same process, see run_check
        _run_one((prop_id, -1 - k, h))
    _, res = _run_one((prop_id, 0, data["case"]))
    print(json.dumps({k: res[k] for k in ("ok", "sig", "msg", "outcome")}, indent=1))
    if res.get("harness"):
        return 2
    if not res["ok"]:
        known = load_known(prop_id)
        if res["sig"] in known:
            print(f"KNOWN-FINDING: property={prop_id} {res['sig']} :: {known[res['sig']]}")
            return 0
        print(f"VIOLATION property={prop_id} replay={path}")
        return 1
    return 0


# --------------------------------------------------------------------------------------------
# small helpers for the property modules
# --------------------------------------------------------------------------------------------


def product_dicts(**alphabets: Iterable) -> Iterable[dict]:
    keys = list(alphabets)
    for combo in itertools.product(*[list(alphabets[k]) for k in keys]):
        yield dict(zip(keys, combo))


def seeded_values(seed: int, n: int, lo: float = 0.3, hi: float = 2.0) -> list[float]:
    """n pairwise distinct 'generic' magnitudes; VERIF_SEED only chooses these."""
    import random

    r = random.Random(1000003 * (seed + 1))
    vals: list[float] = []
    while len(vals) < n:
        v = round(r.uniform(lo, hi), 3)
        if all(abs(v - w) > 0.02 for w in vals):
            vals.append(v)
    return vals
