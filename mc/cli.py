import argparse
import os
import sys

from mc import core


def main() -> int:
    ap = argparse.ArgumentParser()
    sub = ap.add_subparsers(dest="cmd", required=True)
    r = sub.add_parser("run")
    r.add_argument("prop")
    r.add_argument("--tier", default=None)
    r.add_argument("--seed", type=int, default=None)
    r.add_argument("--jobs", type=int, default=None)
    p = sub.add_parser("replay")
    p.add_argument("path")
    sub.add_parser("selftest")
    a = ap.parse_args()
    if a.cmd == "selftest":
        from mc import selftest

        return selftest.main()
    if a.cmd == "replay":
        return core.replay(a.path)
    tier = a.tier or os.environ.get("VERIF_TIER") or "quick"
    if tier not in ("quick", "thorough"):
        tier = "quick"
    seed = a.seed if a.seed is not None else int(os.environ.get("VERIF_SEED", "0") or 0)
    return core.run_check(a.prop, tier, seed, a.jobs)


if __name__ == "__main__":
    sys.exit(main())
