"""
Driver for the autosave / resume explorations (C26, C27; engine E4).

A real MPSBackend run is executed in a private scratch directory with
  * a fake clock inside emu_mps.mps_backend_impl / emu_mps.mps_backend (autosaves fire exactly at the progress() calls the explorer chooses),
  * the FS interposer of mc.seams (crash before / after / during every file-system mutation of a chosen autosave),
  * a crash (process death) injected right after a chosen autosave completed.
Recovery is the real MPSBackend.resume(advertised path).
"""
from __future__ import annotations

import contextlib
import io
import logging
import os
import pickle
import shutil
import tempfile
from collections import Counter

import numpy as np

from mc import runner, seams

AUTOSAVE_DT = 11.0
INNER_STEP_FUNCTIONS = ("evolve_pair", "evolve_single", "minimize_energy_pair", "new_left_bath", "new_right_bath")


@contextlib.contextmanager
def scratch_dir():
    d = tempfile.mkdtemp(prefix="verif-autosave-")
    old = os.getcwd()
    os.chdir(d)
    try:
        yield d
    finally:
        os.chdir(old)
        shutil.rmtree(d, ignore_errors=True)


def _first_outcome(probs, num_samples, k):
    """deterministic sampler answer: first outcome with non-zero weight in every row"""
    p = probs.detach().cpu().numpy().astype(float)
    if p.ndim == 1:
        return [int(np.flatnonzero(p > 1e-14 * p.sum())[0])] * num_samples
    return [[int(np.flatnonzero(r > 1e-14 * r.sum())[0])] * num_samples for r in p]


class Session:
    """One process lifetime (until completion or crash) of a run or of a resume."""

    def __init__(self, workdir, save_calls=(), crash_after_save_call=None, fs_target=None, rng=None, optimiser=None, np_script=None, interrupt_at=None, count_inner=False):
        """
        save_calls            progress()-call indices (0-based, counted in this session) at which the clock jumps past autosave_dt
        crash_after_save_call index of the progress() call right after whose completed autosave the process dies
        fs_target             (ordinal of the autosave inside this session (0-based), event index, when) - crash inside that autosave;
                              (ordinal, None, None) only records the events of that autosave
        save_calls="all"      autosave after every progress() call
        interrupt_at          j: the process is interrupted (an exception that is not an Exception, like KeyboardInterrupt) when the j-th
                              call (0-based, counted over INNER_STEP_FUNCTIONS together) of the stepping code is entered, i.e. in the
                              MIDDLE of a progress() step
        count_inner           count those calls (self.inner_calls) without interrupting
        """
        self.workdir = workdir
        self.save_all = save_calls == "all"
        self.save_calls = set() if self.save_all else set(save_calls)
        self.interrupt_at = interrupt_at
        self.count_inner = count_inner
        self.inner_calls = 0
        self.crash_after = crash_after_save_call
        self.fs_target = fs_target
        self.rng = rng
        self.optimiser = optimiser
        self.np_script = np_script
        self.calls = 0
        self.saves = 0
        self.autosave_file = None
        self.fs_events = None
        self.progress_calls_total = None

    def _run(self, fn):
        import emu_mps.mps_backend as be_mod
        import emu_mps.mps_backend_impl as impl_mod

        clock = seams.FakeClock()
        orig_save = impl_mod.MPSBackendImpl.save_simulation
        sess = self
        fs_box = {}

        def save_wrapper(impl):
            i = sess.calls
            sess.calls += 1
            sess.autosave_file = impl.autosave_file
            if sess.save_all or i in sess.save_calls:
                clock.advance(AUTOSAVE_DT + 1.0)
                ordinal = sess.saves
                sess.saves += 1
                fs = fs_box.get("fs")
                targeted = fs is not None and sess.fs_target is not None and sess.fs_target[0] == ordinal
                if targeted:
                    fs.active = True
                try:
                    orig_save(impl)
                finally:
                    if targeted:
                        fs.active = False
                        sess.fs_events = list(fs.log)
                if sess.crash_after == i:
                    raise seams.Crash(f"after the autosave of progress call {i}")
            else:
                orig_save(impl)

        crash_at = None
        if self.fs_target is not None and self.fs_target[1] is not None:
            crash_at = (self.fs_target[1], self.fs_target[2])
        stack = contextlib.ExitStack()
        with stack:
            stack.enter_context(seams.fake_time([impl_mod, be_mod], clock))
            fs_box["fs"] = stack.enter_context(seams.fs_interposer(self.workdir, crash_at))
            stack.enter_context(seams.torch_multinomial(seams.ScriptedMultinomial(answer_fn=_first_outcome)))
            if self.rng is not None:
                stack.enter_context(seams.module_random(impl_mod, self.rng))
            if self.optimiser is not None:
                stack.enter_context(seams.optimiser_answer(self.optimiser))
            if self.np_script is not None:
                stack.enter_context(seams.pulser_np_random(**self.np_script))
            stack.enter_context(contextlib.redirect_stdout(io.StringIO()))
            impl_mod.MPSBackendImpl.save_simulation = save_wrapper
            saved_inner = {}
            if self.interrupt_at is not None or self.count_inner:
                for name in INNER_STEP_FUNCTIONS:
                    if hasattr(impl_mod, name):
                        saved_inner[name] = getattr(impl_mod, name)

                        def wrapped(*a, _f=saved_inner[name], _name=name, **k):
                            j = sess.inner_calls
                            sess.inner_calls += 1
                            if sess.interrupt_at is not None and j == sess.interrupt_at:
                                raise seams.Crash(f"interrupted when entering inner call {j} ({_name})")
                            return _f(*a, **k)

                        setattr(impl_mod, name, wrapped)
            try:
                res = fn()
                self.progress_calls_total = self.calls
                return "done", res
            except seams.Crash as c:
                return "crashed", str(c)
            except Exception as e:  # the run / resume itself failed: an outcome the oracle judges
                return "raised", f"{type(e).__name__}: {str(e)[:200]}"
            finally:
                impl_mod.MPSBackendImpl.save_simulation = orig_save
                for name, f in saved_inner.items():
                    setattr(impl_mod, name, f)
                logging.getLogger("emulators").handlers.clear()

    def run(self, seq, config):
        import emu_mps as m

        return self._run(lambda: m.MPSBackend(seq, config=config).run())

    def resume(self, path):
        import emu_mps as m

        return self._run(lambda: m.MPSBackend.resume(path))


def results_digest(res):
    """comparable content of a Results object (everything but wall-clock statistics)"""
    out = {"atom_order": list(res.atom_order)}
    for tag in sorted(res.get_result_tags()):
        if tag == "statistics":
            continue
        times = list(res.get_result_times(tag))
        vals = []
        for t in times:
            v = res.get_result(tag, t)
            if isinstance(v, (Counter, dict)):
                vals.append(dict(v))
            else:
                vals.append(np.asarray(runner.to_np(v), dtype=complex))
        out[tag] = (times, vals)
    return out


def compare_digests(a, b, tol=1e-9):
    """None if equal, else a description of the first difference"""
    if a["atom_order"] != b["atom_order"]:
        return f"atom_order {b['atom_order']} != {a['atom_order']}"
    if set(a) != set(b):
        return f"result tags {sorted(set(b) - {'atom_order'})} != {sorted(set(a) - {'atom_order'})}"
    for tag in a:
        if tag == "atom_order":
            continue
        ta, va = a[tag]
        tb, vb = b[tag]
        if len(ta) != len(tb) or any(abs(x - y) > 1e-12 for x, y in zip(ta, tb)):
            return f"{tag}: times {tb} != {ta}"
        for t, x, y in zip(ta, va, vb):
            if isinstance(x, dict):
                if x != y:
                    return f"{tag} at t={t}: {y} != {x}"
            else:
                if x.shape != y.shape or np.abs(x - y).max() > tol * max(1.0, np.abs(x).max()):
                    return f"{tag} at t={t}: {np.round(y, 8).tolist()} != {np.round(x, 8).tolist()}"
    return None
