"""
C07 - Krylov exponentiation is accurate and honest about convergence.

E1: complete product over operator family x dimension x spectrum class x scale x start vector x
tolerance x max_krylov_dim x is_hermitian flag, each through krylov_exp_impl and the public
krylov_exp; oracle scipy.linalg.expm(A) v.
"""
import itertools

import numpy as np
import torch
from scipy.linalg import expm

from mc.core import result
from mc.ref import pulser_ref as R
from mc.ref.dense_ham import dense_hamiltonian, embed

ID = "C07"
LEVEL = "model_checking"
ENGINE = "E1 small-scope product explorer over the operator classes the emulators exponentiate"
RULE = (
    "case = (family, dimension, spectrum class, |A|, tolerance, max_krylov_dim); inside a case every start "
    "vector class (eigenvector, sums of 2..4 eigenvectors, generic, zero) x legal is_hermitian flag is run "
    "through krylov_exp_impl and krylov_exp; non-trivial = |A| > 0 and dimension > 1"
)
ASSUMPTIONS = [
    "operators are conjugated by one seeded unitary per dimension (Krylov methods are unitarily invariant)",
    "accuracy demanded: 10*tol*|v| + 1e-13*(1+|A|)*|v| as stated by the property",
    "a zero start vector may either return zero or be refused (raise / non-convergence)",
]
CHUNK = 4


def _alph(tier):
    if tier == "quick":
        return dict(d=[1, 2, 3, 4, 8, 16], scale=[0.0, 0.01, 1.0, 5.0], tol=[1e-4, 1e-8, 1e-12], mk=[1, 2, 3, 5, 10, 100])
    return dict(d=[1, 2, 3, 4, 8, 16, 64, 256], scale=[0.0, 0.01, 1.0, 5.0, 20.0], tol=[1e-4, 1e-8, 1e-12], mk=[1, 2, 3, 5, 10, 30, 100])


SPECS = ["gapped", "clustered", "degenerate", "single"]
FAMILIES = ["herm", "decay0", "decay1", "decayfull", "lindblad1", "lindblad2", "sectors"]


def bounds(tier, seed):
    b = _alph(tier)
    b.update(spectra=SPECS, families=FAMILIES, vectors=["eig", "sum2", "sum3", "sum4", "generic", "zero"])
    return b


def cases(tier, seed):
    a = _alph(tier)
    if tier == "quick":
        # exercises the recorded 'marginal at |A| = 20' finding in the quick tier as well
        yield {"family": "herm", "d": 256, "spec": "clustered", "scale": 20.0, "tol": 1e-8, "mk": 5, "seed": seed}
    for fam in FAMILIES:
        if fam == "sectors":
            # two atoms, one of them far detuned (what an SLM mask does): a low-energy sector weakly coupled to a high-energy one
            for E, eps, dt, tol in itertools.product((600.0, 60.0), (0.45, 0.05), (0.003, 0.01), a["tol"]):
                yield {"family": fam, "E": E, "eps": eps, "dt": dt, "tol": tol, "mk": 100, "scale": 1.0, "seed": seed}
            continue
        if fam.startswith("lindblad"):
            for scale, tol, mk in itertools.product(a["scale"], a["tol"], a["mk"]):
                for noise in ("relax", "dephase", "both"):
                    yield {"family": fam, "noise": noise, "scale": scale, "tol": tol, "mk": mk, "seed": seed}
            continue
        for d, spec, scale, tol, mk in itertools.product(a["d"], SPECS, a["scale"], a["tol"], a["mk"]):
            if d == 1 and spec != "single":
                continue
            if d >= 64 and (mk < 5 or spec == "single"):
                continue
            yield {"family": fam, "d": d, "spec": spec, "scale": scale, "tol": tol, "mk": mk, "seed": seed}


_Q = {}


def _unitary(d, seed):
    if (d, seed) not in _Q:
        r = np.random.RandomState(991 + 31 * seed + d)
        q, _ = np.linalg.qr(r.normal(size=(d, d)) + 1j * r.normal(size=(d, d)))
        _Q[d, seed] = q
    return _Q[d, seed]


def _spectrum(d, spec):
    if spec == "gapped":
        return np.linspace(-1.0, 1.0, d) if d > 1 else np.array([1.0])
    if spec == "clustered":
        half = d // 2
        return np.concatenate([-1.0 + 1e-6 * np.arange(half) / max(half, 1), 1.0 - 1e-6 * np.arange(d - half) / max(d - half, 1)])
    if spec == "degenerate":
        return np.array([(-1.0) ** (i * 2 // d) * (1.0 if i * 4 // d % 2 == 0 else 0.5) for i in range(d)])
    return np.full(d, 0.7)


def _operator(case):
    fam, seed = case["family"], case["seed"]
    if fam == "sectors":
        H = dense_hamiltonian([case["eps"], case["eps"]], [-case["E"] - 1.0, -1.0], [0.0, 0.0], np.zeros((2, 2)))
        A = -1j * case["dt"] * H
        return A, np.eye(4, dtype=complex), True
    if fam.startswith("lindblad"):
        n = int(fam[-1])
        r = np.random.RandomState(17 + seed)
        om = (1.0 + r.rand(n)).tolist()
        de = (r.rand(n) - 0.5).tolist()
        ph = [0.3 * k for k in range(n)]
        U = np.zeros((n, n))
        if n == 2:
            U[0, 1] = U[1, 0] = 2.3
        H = dense_hamiltonian(om, de, ph, U)
        Ls = []
        relax = np.array([[0, 1], [0, 0]], dtype=complex)  # |g><r|
        deph = np.array([[1, 0], [0, -1]], dtype=complex)
        for j in range(n):
            if case["noise"] in ("relax", "both"):
                Ls.append(np.sqrt(0.7) * embed(relax, j, n, 2))
            if case["noise"] in ("dephase", "both"):
                Ls.append(np.sqrt(0.4 / 2) * embed(deph, j, n, 2))
        L = R.liouvillian(H, Ls)
        nrm = np.linalg.norm(L, 2)
        A = L * (case["scale"] / nrm)
        d = L.shape[0]
        eigvals, eigvecs = np.linalg.eig(A)
        return A, eigvecs, False
    d = case["d"]
    q = _unitary(d, seed)
    lam = _spectrum(d, case["spec"])
    H = (q * lam) @ q.conj().T
    H = H / max(np.abs(lam).max(), 1e-300) * case["scale"]
    if fam == "herm":
        return -1j * H, q, True
    rank = {"decay0": 0, "decay1": 1, "decayfull": d}[fam]
    q2 = _unitary(d, seed + 5)
    g = np.zeros(d)
    g[:rank] = np.linspace(0.5, 1.0, rank) if rank else []
    G = (q2 * g) @ q2.conj().T * case["scale"]
    A = -1j * (H - 0.5j * G)
    if rank == 0:
        return A, q, False
    _, vecs = np.linalg.eig(A)
    return A, vecs, False


def _vectors(basis, d, seed):
    r = np.random.RandomState(5 + seed + d)
    out = [("eig", basis[:, 0].copy())]
    for k in (2, 3, 4):
        if d >= k:
            c = 1.0 + r.rand(k)
            out.append((f"sum{k}", basis[:, :k] @ c))
    g = r.normal(size=d) + 1j * r.normal(size=d)
    out.append(("generic", g * 3.0))
    out.append(("zero", np.zeros(d, dtype=complex)))
    return out


def run_case(case):
    from emu_base.math.krylov_exp import krylov_exp, krylov_exp_impl

    A, basis, hermitian_ok = _operator(case)
    d = A.shape[0]
    At = torch.tensor(A, dtype=torch.complex128)
    E = expm(A)
    nA = np.linalg.norm(A, 2)
    tol, mk = case["tol"], case["mk"]
    op = lambda x: At @ x  # noqa: E731
    n_run = 0
    outcomes = []
    worst = 0.0
    vectors = _vectors(basis, d, case["seed"])
    if case["family"] == "sectors":
        vectors = [("ground", np.array([1, 0, 0, 0], dtype=complex)), ("generic", vectors[-2][1])]
    for vname, v in vectors:
        flags = [True, False] if hermitian_ok else [False]
        for herm in flags:
            n_run += 1
            vt = torch.tensor(v, dtype=torch.complex128)
            try:
                res = krylov_exp_impl(op, vt.clone(), is_hermitian=herm, exp_tolerance=tol, norm_tolerance=tol, max_krylov_dim=mk)
            except Exception as e:
                if vname == "zero":
                    outcomes.append((vname, herm, "refused"))
                    continue
                return result(False, sig=f"impl-raises|{type(e).__name__}|{vname}", msg=f"krylov_exp_impl raised {e!r} for {case} vector {vname}", outcome="raise")
            raised = None
            pub = None
            try:
                pub = krylov_exp(op, vt.clone(), exp_tolerance=tol, norm_tolerance=tol, is_hermitian=herm, max_krylov_dim=mk)
            except RecursionError as e:
                raised = e
            except Exception as e:
                if vname != "zero":
                    return result(False, sig=f"public-raises|{type(e).__name__}|{vname}", msg=f"krylov_exp raised {e!r} for {case} vector {vname}", outcome="raise")
                raised = e
            ref = E @ v
            nv = np.linalg.norm(v)
            allowed = 10 * tol * nv + 1e-13 * (1 + nA) * nv
            if res.converged:
                got = res.result.numpy()
                if vname == "zero":
                    if not (np.all(np.isfinite(got)) and np.linalg.norm(got) == 0):
                        return result(False, sig="zero-vector|converged-nonzero", msg=f"zero start vector reported converged with result {got[:4]} ({case})", outcome="viol")
                else:
                    err = np.linalg.norm(got - ref)
                    worst = max(worst, err / max(allowed, 1e-300))
                    if not err <= allowed:
                        return result(
                            False,
                            sig=(
                                "inaccurate-converged|sectors|error-estimate-uses-norm-of-previous-vector"
                                if case["family"] == "sectors" and res.iteration_count <= 2
                                else (
                                    "inaccurate-converged|marginal (10-15 tol) at |A| = 20, d = 256, clustered spectrum"
                                    if case.get("scale", 0) >= 20 and case.get("d") == 256 and case.get("spec") == "clustered" and err <= 1.5 * allowed
                                    else f"inaccurate-converged|{case['family']}|herm={herm}"
                                )
                            ),
                            msg=f"converged (happy={res.happy_breakdown}, it={res.iteration_count}) but |exp(A)v - result| = {err:.3e} > {allowed:.3e}; vector {vname}, {case}",
                            outcome="viol",
                        )
                if raised is not None:
                    return result(False, sig="public-raises-when-converged", msg=f"impl converged but krylov_exp raised {raised!r}; vector {vname}, {case}", outcome="viol")
                if pub is not None and vname != "zero" and np.linalg.norm(pub.numpy() - ref) > allowed:
                    return result(False, sig="public-inaccurate", msg=f"krylov_exp returned an inaccurate vector; vector {vname}, {case}", outcome="viol")
                outcomes.append((vname, herm, "conv", bool(res.happy_breakdown), res.iteration_count))
            else:
                if raised is None:
                    return result(
                        False,
                        sig="public-returns-unconverged",
                        msg=f"impl reports non-convergence but krylov_exp returned a vector instead of raising; vector {vname}, {case}",
                        outcome="viol",
                    )
                outcomes.append((vname, herm, "nonconv", res.iteration_count))
            # an eigenvector start / invariant subspace must break down happily once the subspace is exhausted
            # (only demanded where rounding cannot hide the breakdown: |A| eps must stay well below the breakdown threshold = tolerance)
            if vname.startswith(("eig", "sum")) and case["scale"] > 0 and not res.converged and tol >= 1e-8:
                k = 1 if vname == "eig" else int(vname[3:])
                if mk > k:
                    return result(False, sig="invariant-subspace-not-converged", msg=f"start vector in a {k}-dim invariant subspace, max_krylov_dim {mk}, but no convergence; {case}", outcome="viol")
    return result(True, outcome=outcomes, transitions=2 * n_run, states=n_run, nontrivial=case["scale"] > 0 and d > 1, extra={"worst_ratio": worst})
