"""
C25 - badly prepared atoms behave as absent, on both backends.

E3 + differential: EVERY bad-atom mask of registers of 2..4 atoms is injected through Pulser's own random draw (the
np.random.uniform call inside HamiltonianData is scripted, so Pulser itself builds the trajectory), for drives {global,
per-atom DMM, local channel}, other noise {none, relaxation (emu-sv), leakage level (emu-mps, scripted no-jump trajectory)},
qubit ordering {off, on with EVERY optimiser answer}, backends {sv, mps}.
Oracle: the dense reference of the REDUCED register (bad atoms removed, same drives for the remaining atoms): good atoms'
occupations / correlations equal it, bad atoms have occupation 0 and zero correlation rows, the exact bitstring distribution
(all sampling paths) has '0' at bad positions.  A run that raises is a violation.
"""
import itertools

import numpy as np

from mc import explore, runner, seams
from mc.core import result, rnd
from mc.pulser_kit import SHAPES
from mc.props.C02 import drives
from mc.ref import pulser_ref as R

ID = "C25"
LEVEL = "model_checking"
ENGINE = "E3 environment-answer explorer (every bad-atom mask as Pulser's draw, every optimiser answer) + differential dense reference of the reduced register"
RULE = (
    "case = (backend, register, drive, other noise, mask, optimiser answer); one real run (+ all sampling paths for N<=3); "
    "states = distinct cases; non-trivial = at least one bad and one good atom"
)
ASSUMPTIONS = [
    "Pulser marks atom k as badly prepared iff its uniform draw is below state_prep_error (scripted draw 0.0 / 0.999999)",
    "reference for the good atoms = dense expm / Lindblad propagation of the register with the bad atoms removed (mc/ref)",
    "emu-mps + relaxation (rate 6/us): scripted jump threshold 1e-9, i.e. the no-jump trajectory; reference = reduced register under H - i/2 sum L^dag L, normalised",
    "emu-mps + leakage: eff-noise rate 1e-9 and scripted jump threshold 0.5, i.e. the no-jump trajectory, compared with the noiseless reference (norm loss < 1e-9)",
]
CHUNK = 1


def bounds(tier, seed):
    return {
        "registers": ["pair", "bent3", "zig4"],
        "masks": "all 2^N",
        "drives": ["global", "dmm", "local", "slm (mask x bad atoms x ordering)"],
        "other_noise": {"sv": ["none", "relaxation"], "mps": ["none", "leakage", "relaxation (no-jump trajectory)"]},
        "ordering": "off; on with every p in S_N (N<=3), generators of S_4 (quick) / all of S_4 (thorough)",
    }


def _answers(n, tier):
    if n <= 3 or tier == "thorough":
        return [list(p) for p in itertools.permutations(range(n))]
    ident = list(range(n))
    return [ident, ident[::-1], [1, 0, 2, 3], [0, 2, 1, 3], [0, 1, 3, 2], [1, 2, 3, 0]]


def cases(tier, seed):
    for shape in ("pair", "bent3", "zig4"):
        n = len(SHAPES[shape])
        for mask in itertools.product((0, 1), repeat=n):
            for kind in ("global", "dmm", "local", "slm"):
                if kind == "slm" and n < 3:
                    continue
                for other in ("none", "relaxation"):
                    yield {"backend": "sv", "shape": shape, "kind": kind, "other": other, "mask": list(mask), "perm": None}
                if kind == "global" and n <= 3 and 0 < sum(mask) < n:
                    # a user-supplied interaction matrix (Pulser never masks that one) with a channel that excites undriven atoms: the
                    # density-matrix path; only the well-prepared atoms are compared
                    yield {"backend": "sv", "shape": shape, "kind": kind, "other": "depolarizing", "mask": list(mask), "perm": None, "custom": True}
                for other in ("none", "leakage", "nojump_relaxation"):
                    if other == "nojump_relaxation" and kind == "local":
                        continue
                    yield {"backend": "mps", "shape": shape, "kind": kind, "other": other, "mask": list(mask), "perm": None}
                    if other == "none" and kind != "global":  # incl. the SLM kind
                        for p in _answers(n, tier):
                            yield {"backend": "mps", "shape": shape, "kind": kind, "other": other, "mask": list(mask), "perm": p}


def _spec(shape, kind, keep=None):
    coords = SHAPES[shape]
    n = len(coords)
    d = drives(kind, 0.7, n)
    # the local pulse overlaps the global one (no-delay), so removing the locally addressed atom does not change the duration
    spec = {"coords": coords, "device": "mock", "basis": "rydberg", "pulses": d["pulses"] + [dict(p, protocol="no-delay") for p in d.get("extra", [])]}
    for k in ("dmm", "local_channel", "slm"):
        if k in d:
            spec[k] = d[k]
    if keep is not None and "slm" in spec:
        left = [keep.index(i) for i in spec["slm"] if i in keep]
        if left:
            spec["slm"] = left
        else:
            del spec["slm"]  # every masked atom is gone
    if keep is not None:  # reduced register: only the atoms in `keep`
        spec["coords"] = [coords[i] for i in keep]
        if "dmm" in spec:
            spec["dmm"] = dict(spec["dmm"], weights=[spec["dmm"]["weights"][i] for i in keep])
        if "local_channel" in spec:
            t = spec["local_channel"]["target"]
            if t in keep:
                spec["local_channel"] = {"target": keep.index(t)}
            else:  # the locally addressed atom is gone: drop the local pulse
                del spec["local_channel"]
                spec["pulses"] = [p for p in spec["pulses"] if p.get("ch", "ch") == "ch"]
    return spec


def _noise(other):
    import pulser

    kw = dict(state_prep_error=0.25, p_false_pos=0.0, p_false_neg=0.0)
    if other in ("relaxation", "nojump_relaxation"):
        kw["relaxation_rate"] = 0.8 if other == "relaxation" else 6.0
    if other == "depolarizing":
        kw["depolarizing_rate"] = 0.6
    if other == "leakage":
        op = np.zeros((3, 3), dtype=complex)
        op[2, 2] = 1
        kw.update(with_leakage=True, eff_noise_opers=[op], eff_noise_rates=[1e-9])
    return pulser.NoiseModel(**kw)


def _observables(backend, shots=0):
    import emu_mps as m
    import emu_sv as sv

    mod = sv if backend == "sv" else m
    obs = [mod.Occupation(evaluation_times=[0.5, 1.0]), mod.CorrelationMatrix(evaluation_times=[1.0]), mod.Energy(evaluation_times=[0.2, 0.5, 1.0]), mod.EnergySecondMoment(evaluation_times=[0.2, 1.0])]  # 0.2: before an SLM mask ends
    if shots:
        obs.append(mod.BitStrings(evaluation_times=[1.0], num_shots=shots))
    return obs


def _run(case, shots=0, dt=10):
    import emu_mps.mps_backend_impl as impl_mod

    spec = _spec(case["shape"], case["kind"])
    cfg = {"dt": dt, "eval": [1.0], "precision": 1e-9, "ordering": case["perm"] is not None}
    if case.get("custom"):
        cfg["interaction_matrix"] = _custom(len(case["mask"]))
    noise = _noise(case["other"])
    obs = _observables(case["backend"], shots)
    with seams.pulser_np_random(uniform=[seams.bad_mask_uniform(case["mask"])]):
        if case["backend"] == "sv":
            res, _ = runner.run_sv(spec, cfg, observables=obs, noise=noise)
        else:
            # jump threshold: 0.5 for the (rate 1e-9) leakage runs; 1e-9 for the relaxation runs, i.e. the no-jump trajectory whose norm really decays
            with seams.module_random(impl_mod, seams.ScriptedRandom(default_uniform=1e-9 if case["other"] == "nojump_relaxation" else 0.5, default_choice=0)):
                if case["perm"] is not None:
                    with seams.optimiser_answer(case["perm"]):
                        res, _ = runner.run_mps(spec, cfg, observables=obs, noise=noise)
                else:
                    res, _ = runner.run_mps(spec, cfg, observables=obs, noise=noise)
    return res


def _custom(n, keep=None):
    U = [[0.0 if i == j else 4.0 + 1.5 * (i + j) for j in range(n)] for i in range(n)]
    if keep is not None:
        U = [[U[i][j] for j in keep] for i in keep]
    return U


def _reference(case, dt=10):
    """occupation (t=0.5, 1) and correlation (t=1) of the full register predicted from the reduced one; born distribution"""
    n = len(case["mask"])
    keep = [i for i, b in enumerate(case["mask"]) if not b]
    occ = {0.5: np.zeros(n), 1.0: np.zeros(n)}
    corr = np.zeros((n, n))
    born = {"0" * n: 1.0}
    energy = {0.2: 0.0, 0.5: 0.0, 1.0: 0.0, "m2": 0.0, "scale": 1.0}
    if keep:
        spec = _spec(case["shape"], case["kind"], keep)
        Ls = None
        if case["other"] == "relaxation":
            L = np.zeros((2, 2), dtype=complex)
            L[0, 1] = np.sqrt(0.8)
            Ls = R.embed_all([L], len(keep), 2)
        if case["other"] == "depolarizing":
            g = np.sqrt(0.6 / 4)
            paulis = [g * np.array([[0, 1], [1, 0]], dtype=complex), g * np.array([[0, -1j], [1j, 0]], dtype=complex), g * np.array([[1, 0], [0, -1]], dtype=complex)]
            Ls = R.embed_all(paulis, len(keep), 2)
        rcfg = {"dt": dt, "eval": [0.2, 0.5, 1.0]}
        if case.get("custom"):
            rcfg["interaction_matrix"] = _custom(n, keep)
        ref = runner.Ref(spec, rcfg, slm_rule="mid", Ls=Ls)
        if case["other"] == "nojump_relaxation":
            # no-jump trajectory: evolution under H - i/2 sum L^dag L, observables of the NORMALISED state
            L = np.zeros((2, 2), dtype=complex)
            L[0, 1] = np.sqrt(6.0)
            term = -0.5j * L.conj().T @ L
            Hs = [H + sum(R.embed(term, q, len(keep), 2) for q in range(len(keep))) for H in ref.Hs]
            sts = R.propagate_sv(ref.states[0], Hs, ref.times)
            ref.states = [v / np.linalg.norm(v) for v in sts]
        for t in (0.5, 1.0):
            o = ref.observables(t)
            occ[t][keep] = o["occupation"]
        for t in (0.2, 0.5, 1.0):
            energy[t] = float(ref.observables(t)["energy"])
        energy["m2"] = float(ref.observables(1.0)["energy_second_moment"])
        energy["scale"] = max(1.0, ref.max_norm_H())
        c = ref.observables(1.0)["correlation_matrix"]
        for a, i in enumerate(keep):
            for b, j in enumerate(keep):
                corr[i, j] = c[a, b]
        small = R.born(ref.states[ref.index_of(1.0)], len(keep))
        born = {}
        for bs, pr in small.items():
            full = ["0"] * n
            for a, i in enumerate(keep):
                full[i] = bs[a]
            born["".join(full)] = born.get("".join(full), 0.0) + pr
    return occ, corr, born, energy


def run_case(case):
    n = len(case["mask"])
    good = n - sum(case["mask"])
    label = f"{case['backend']} {case['shape']}/{case['kind']} other={case['other']} bad_mask={''.join(map(str, case['mask']))} optimiser_answer={case['perm']}"
    sig_ctx = f"{case['backend']}|N={n}|good={good}|{case['other']}"
    try:
        res = _run(case)
    except Exception as e:
        if case["backend"] == "mps" and good < 2 and isinstance(e, ValueError) and "For 1 qubit states" in str(e):
            # specific, recorded failure site: MPS.make() refuses a chain of fewer than two (well-prepared) atoms
            return result(False, sig="raises|mps|fewer-than-2-good-atoms|ValueError:For 1 qubit states", msg=f"{label}: run raised {type(e).__name__}: {str(e)[:300]}", outcome="raise<2")
        return result(False, sig=f"raises|{sig_ctx}|{type(e).__name__}", msg=f"{label}: run raised {type(e).__name__}: {str(e)[:300]}", outcome="raise")
    transitions = 1
    ids = [f"q{i}" for i in range(n)]
    if list(res.atom_order) != ids:
        return result(False, sig="atom_order", msg=f"{label}: atom_order {res.atom_order}", outcome="order")
    occ, corr, born, energy = _reference(case)
    tol = 1e-6 if (case["backend"] == "sv" or good <= 2) else (1e-3 if case["kind"] == "slm" and good >= 4 else 5e-5)  # TDVP splitting classes as in C02
    keep_idx = [i for i, b in enumerate(case["mask"]) if not b]
    for t in (0.5, 1.0):
        got = runner.to_np(runner.get_at(res, "occupation", t)).astype(float)
        if got.shape != (n,):
            return result(False, sig=f"shape|{sig_ctx}", msg=f"{label}: occupation has shape {got.shape}", outcome="shape")
        if case.get("custom"):
            # only the well-prepared atoms are judged here (what the noise channel does to an absent atom is not the subject)
            if not np.abs(got[keep_idx] - occ[t][keep_idx]).max() <= tol:  # NaN fails
                return result(False, sig=f"occupation|good-atom|{case['backend']}|custom-matrix", msg=f"{label}: occupation of the well-prepared atoms at t={t} {np.round(got[keep_idx], 6).tolist()} but the reduced register gives {np.round(occ[t][keep_idx], 6).tolist()}", outcome="occ")
            continue
        if not np.abs(got - occ[t]).max() <= tol:  # NaN fails
            where = "bad-atom" if any(abs(got[i]) > tol for i in range(n) if case["mask"][i]) else "good-atom"
            return result(False, sig=f"occupation|{where}|{case['backend']}|{'perm' if case['perm'] else 'noperm'}", msg=f"{label}: occupation at t={t} {np.round(got, 6).tolist()} but the reduced register gives {np.round(occ[t], 6).tolist()}", outcome="occ")
    if case.get("custom"):
        return result(True, outcome=["ok-custom", rnd(occ[1.0], 4)], transitions=transitions, nontrivial=True)
    gc = runner.to_np(runner.get_at(res, "correlation_matrix", 1.0)).astype(float)
    if gc.shape != (n, n) or np.abs(gc - corr).max() > tol:
        return result(False, sig=f"correlation|{case['backend']}", msg=f"{label}: correlation matrix {np.round(gc, 6).tolist()} but the reduced register gives {np.round(corr, 6).tolist()}", outcome="corr")
    if case["other"] == "none":
        # energies: dark atoms contribute nothing (no drive, no interaction, ground state)
        for t in (0.2, 0.5, 1.0):
            e = float(np.real(runner.to_np(runner.get_at(res, "energy", t))))
            if not abs(e - energy[t]) <= tol * 10 * energy["scale"]:  # NaN fails
                return result(False, sig=f"energy|{case['backend']}|{case['kind']}", msg=f"{label}: energy at t={t} is {e:.6f} but the reduced register gives {energy[t]:.6f}", outcome="energy")
        e2 = float(np.real(runner.to_np(runner.get_at(res, "energy_second_moment", 1.0))))
        if not abs(e2 - energy["m2"]) <= tol * 10 * energy["scale"] ** 2:  # NaN fails
            return result(False, sig=f"energy_second_moment|{case['backend']}|{case['kind']}", msg=f"{label}: <H^2> at t=1 is {e2:.6f} but the reduced register gives {energy['m2']:.6f}", outcome="energy2")
    if n <= 3 and case["other"] == "none":
        def run():
            r = _run(case, shots=1, dt=50)
            return runner.get_at(r, "bitstrings", 1.0)

        try:
            dist, paths = explore.exact_bitstring_distribution(run)
        except Exception as e:
            return result(False, sig=f"raises|bitstrings|{sig_ctx}|{type(e).__name__}", msg=f"{label}: sampling raised {type(e).__name__}: {str(e)[:300]}", outcome="raise")
        transitions += paths
        _, _, born50, _ = _reference(case, dt=50)
        dd = explore.dist_distance(dist, born50)
        if not dd <= max(tol, 1e-6):  # NaN fails
            return result(False, sig=f"bitstrings|{case['backend']}", msg=f"{label}: exact bitstring distribution {rnd(dist, 5)} but the reduced register gives {rnd(born50, 5)}", outcome="bits")
    return result(True, outcome=["ok", rnd(occ[1.0], 4)], transitions=transitions, nontrivial=0 < good < n)
