"""
C29 - physically equivalent inputs give equivalent results.

E1, differential: complete product base sequence (global / two-phase / DMM / SLM; ising and XY; 2..4 atoms) x transformation
{translation (3 vectors), rotation (pi/2, pi/3, 1 rad), reflection, global phase offset (0.4, pi, -2), phase negation (on its
domain of validity), serialise -> deserialise} x backend {sv, mps}, every one a real run.
Oracle (no hand-written values): occupation, correlation matrix, energy and the exact bitstring distribution (N <= 3, all
sampling paths) equal those of the untransformed run to 2e-5 (Pulser rounds coordinates to 1e-6 um).
"""
import itertools
import json

import numpy as np

from mc import explore, pulser_kit as kit, runner
from mc.core import result, rnd
from mc.pulser_kit import SHAPES
from mc.props.C02 import drives

ID = "C29"
LEVEL = "model_checking"
ENGINE = "E1 differential product explorer over (base sequence, transformation, backend) + exact sampling distribution by path enumeration"
RULE = (
    "case = (base, backend, transformation): a real run compared with the base run (cached per worker); "
    "states = distinct (base, backend, transformation) runs; non-trivial = the transformation is not the identity"
)
ASSUMPTIONS = [
    "phase negation (phi -> -phi) is complex conjugation of H; it leaves computational-basis statistics invariant only when all pulses share one "
    "phase (then it is a global offset): the sub-clause is checked on single-phase sequences only (a Ramsey-type sequence with two phases and delta != 0 is a counter-example of the physics, not of the code)",
    "XY: rotations are taken in the register plane with the magnetic field along z (the default), where the interaction is rotation invariant",
    "tolerance 2e-5: Pulser rounds coordinates to 1e-6 um",
]
CHUNK = 3

BASES = [("bent3", "orthophase", "rydberg"), ("bent3", "local", "rydberg"), ("pair", "global", "rydberg"), ("bent3", "twophase", "rydberg"), ("bent3", "dmm", "rydberg"), ("zig4", "slm", "rydberg"), ("bent3", "global", "xy"), ("zig4", "twophase", "xy")]
# integer atom names given out of order (a serialisation round trip turns them into the strings "2", "10", "1"), with per-atom drives
BASES += [("bent3#int", "dmm", "rydberg"), ("bent3#int", "local", "rydberg")]
SHAPES = dict(SHAPES, **{"bent3#int": SHAPES["bent3"]})


def _rot(c, a):
    ca, sa = np.cos(a), np.sin(a)
    return [[ca * x - sa * y, sa * x + ca * y] for x, y in c]


TRANSFORMS = (
    [("translate", v) for v in ([13.0, 0.0], [-4.5, 7.25], [100.0, -40.0])]
    + [("rotate", a) for a in (np.pi / 2, np.pi / 3, 1.0)]
    + [("reflect", 0)]
    + [("phase_offset", p) for p in (0.4, float(np.pi), -2.0, float(np.pi / 2))]
    + [("phase_negate", 0), ("serialise", 0), ("center", 0)]
)


def bounds(tier, seed):
    return {"bases": BASES, "transformations": [f"{k}:{v}" for k, v in TRANSFORMS], "backends": ["sv (ising only)", "mps"]}


def cases(tier, seed):
    for shape, kind, basis in BASES:
        for be in ("sv", "mps"):
            if be == "sv" and basis == "xy":
                continue
            for k in range(len(TRANSFORMS)):
                yield {"shape": shape, "kind": kind, "basis": basis, "backend": be, "transform": k}


import functools


@functools.lru_cache(maxsize=4)
def _base(shape, kind, basis, be):
    spec = _spec(shape, kind, basis)
    vals = _vals(_observe(spec, be))
    bits = None
    k = 0
    if len(SHAPES[shape]) <= 3:
        bits, k = explore.exact_bitstring_distribution(lambda: runner.get_at(_observe(spec, be, shots=1), "bitstrings", 1.0))
    return vals, bits, k


def _spec(shape, kind, basis):
    n = len(SHAPES[shape])
    if kind == "orthophase":
        # phases exactly 0 and pi/2: the offsets pi/2 and pi produce steps whose phase is exactly pi (sin = 0, cos = -1)
        d = {"pulses": [{"amp": ["const", 50, 9.0], "det": ["const", 50, 1.0], "phase": 0.0}, {"amp": ["const", 50, 9.0], "det": ["const", 50, 1.0], "phase": float(np.pi / 2)}]}
    else:
        d = drives(kind, 0.7, n)
    spec = {"coords": SHAPES[shape], "device": "mock", "basis": basis, "pulses": d["pulses"] + d.get("extra", [])}
    if shape.endswith("#int"):
        spec["ids"] = [2, 10, 1]
    for k in ("dmm", "slm", "local_channel"):
        if k in d:
            spec[k] = d[k]
    return spec


def _apply(spec, tr):
    kind, arg = tr
    s = json.loads(json.dumps(spec))
    c = np.array(spec["coords"], dtype=float)
    if kind == "translate":
        s["coords"] = (c + np.array(arg)).tolist()
    elif kind == "rotate":
        s["coords"] = _rot(c.tolist(), arg)
    elif kind == "reflect":
        s["coords"] = [[-x, y] for x, y in c.tolist()]
    elif kind == "center":
        s["coords"] = (c - c.mean(axis=0)).tolist()
    elif kind == "phase_offset":
        for p in s["pulses"]:
            p["phase"] = p.get("phase", 0.0) + arg
    elif kind == "phase_negate":
        if len({round(p.get("phase", 0.0), 9) for p in s["pulses"]}) != 1:
            return None  # outside the domain where negation is an invariance
        for p in s["pulses"]:
            p["phase"] = -p.get("phase", 0.0)
    return s


def _observe(spec, be, serialise=False, shots=0):
    import pulser
    import emu_mps as m
    import emu_sv as sv

    mod = sv if be == "sv" else m
    import warnings

    with warnings.catch_warnings():
        warnings.simplefilter("ignore", DeprecationWarning)  # integer atom names are deprecated in Pulser, still legal
        seq = kit.build_sequence(spec)
    if serialise:
        seq = pulser.Sequence.from_abstract_repr(seq.to_abstract_repr())
    ev = [0.5, 1.0]
    obs = [mod.Occupation(evaluation_times=ev), mod.CorrelationMatrix(evaluation_times=ev), mod.Energy(evaluation_times=ev)]
    if shots:
        obs.append(mod.BitStrings(evaluation_times=[1.0], num_shots=shots))
    cfg = {"dt": 10, "eval": ev, "precision": 1e-9}
    if be == "sv":
        res, _ = runner.run_sv(spec, cfg, observables=obs, seq=seq)
    else:
        res, _ = runner.run_mps(spec, cfg, observables=obs, seq=seq)
    return res


def _vals(res):
    out = {}
    for tag in ("occupation", "correlation_matrix", "energy"):
        for t in (0.5, 1.0):
            out[(tag, t)] = np.real(runner.to_np(runner.get_at(res, tag, t))).astype(float)
    return out


def run_case(case):
    shape, kind, basis, be = case["shape"], case["kind"], case["basis"], case["backend"]
    n = len(SHAPES[shape])
    spec = _spec(shape, kind, basis)
    label0 = f"{shape}/{kind}/{basis} backend={be}"
    try:
        base, base_bits, _k0 = _base(shape, kind, basis, be)
    except Exception as e:
        return result(False, sig=f"raises|base|{type(e).__name__}", msg=f"{label0}: {type(e).__name__}: {str(e)[:300]}", outcome="raise")
    escale = max(1.0, np.abs(base[("energy", 1.0)]).max(), np.abs(base[("energy", 0.5)]).max())
    states = transitions = 1
    tol = 2e-5 if not (n >= 4 and kind == "slm") else 2e-5
    for tr in [TRANSFORMS[case["transform"]]]:
        s2 = _apply(spec, tr)
        if s2 is None:
            continue
        label = f"{label0} transformation={tr[0]}:{tr[1]}"
        try:
            got = _vals(_observe(s2, be, serialise=tr[0] == "serialise"))
        except Exception as e:
            return result(False, sig=f"raises|{tr[0]}|{type(e).__name__}", msg=f"{label}: {type(e).__name__}: {str(e)[:300]}", outcome="raise")
        states += 1
        transitions += 1
        for key, b in base.items():
            sc = escale if key[0] == "energy" else 1.0
            err = np.abs(got[key] - b).max() / sc
            if not err <= tol:  # NaN fails
                return result(False, sig=f"{tr[0]}|{be}|{key[0]}", msg=f"{label}: {key[0]} at t={key[1]} changed by {err:.3e}: base {np.round(b, 6).tolist()} transformed {np.round(got[key], 6).tolist()}", outcome="diff")
        if n <= 3:
            bits, k = explore.exact_bitstring_distribution(lambda: runner.get_at(_observe(s2, be, serialise=tr[0] == "serialise", shots=1), "bitstrings", 1.0))
            transitions += k
            dd = explore.dist_distance(base_bits, bits)
            if not dd <= tol:  # NaN fails
                return result(False, sig=f"{tr[0]}|{be}|bitstrings", msg=f"{label}: exact bitstring distribution changed by {dd:.3e}: base {rnd(base_bits, 5)} transformed {rnd(bits, 5)}", outcome="bits")
    return result(True, outcome=["ok", rnd(base[("occupation", 1.0)], 4), states], states=states, transitions=transitions)
