"""
C01 - emu-sv noiseless runs reproduce the Pulser Hamiltonian dynamics.

E1: complete product of a sequence alphabet x configuration alphabet through the public
SVBackend(seq, config).run().  Oracle A (tight): scipy-expm propagation of the midpoint-PCHIP
piecewise-constant Hamiltonian built by mc/ref (no emulator code).  Oracle B (loose): 1-ns
propagation straight from Pulser's samples, bound = rigorous Duhamel bound
sum_steps int |H_fine(t) - H_step| dt computed by the oracle itself.
"""
import functools
import json

import numpy as np
import torch

from mc import runner
from mc.core import result, rnd
from mc.pulser_kit import SHAPES, chain
from mc.ref import pulser_ref as R

ID = "C01"
LEVEL = "model_checking"
ENGINE = "E1 small-scope product explorer over (register, drive, phase, DMM, SLM, device, dt, evaluation times, tolerance, initial state)"
RULE = (
    "case = one point of the full Cartesian product of the alphabets in `bounds`; the real "
    "SVBackend.run() is executed and state + 5 observables at every evaluation time are compared with "
    "the dense expm reference; distinct = distinct case dicts; non-trivial = final reference state "
    "differs from the initial state by > 1e-3"
)
ASSUMPTIONS = [
    "reference = scipy PCHIP of Pulser's samples at step midpoints + scipy expm (mc/ref/pulser_ref.py)",
    "oracle B stands in for pulser-simulation/QuTiP, which is not installed",
    "energy at time t_k is taken with the Hamiltonian of the step that ends at t_k (step 0 at t=0)",
    "steps straddling the SLM mask end may use either matrix",
]
CHUNK = 2


def drives(ph):
    return {
        "const": [{"amp": ["const", 100, 4.0], "det": ["const", 100, 1.5], "phase": ph}],
        "rampdet": [{"amp": ["const", 100, 5.0], "det": ["ramp", 100, -6.0, 6.0], "phase": ph}],
        "blackman": [{"amp": ["blackman", 100, 2.5], "det": ["const", 100, -1.0], "phase": ph}],
        "twophase": [
            {"amp": ["const", 60, 6.0], "det": ["const", 60, 0.0], "phase": ph},
            {"amp": ["ramp", 40, 6.0, 1.0], "det": ["const", 40, 2.0], "phase": ph + 1.3},
        ],
        "interp": [{"amp": ["interp", 100, [0.0, 5.0, 2.0, 0.0]], "det": ["interp", 100, [-3.0, 4.0, 1.0]], "phase": ph}],
        # same amplitude and detuning, phase ph then ph + pi exactly (for ph = 0: phases 0 and pi, i.e. sin(phi) = 0 throughout)
        # two identical consecutive pulses: with an SLM mask only the interaction matrix changes at the mask end
        "twosame": [
            {"amp": ["const", 50, 7.0], "det": ["const", 50, -2.0], "phase": ph},
            {"amp": ["const", 50, 7.0], "det": ["const", 50, -2.0], "phase": ph},
        ],
        # an idle gap between two pulses (all drive values exactly zero for a while)
        "gap": [
            {"amp": ["const", 40, 7.0], "det": ["const", 40, 2.0], "phase": ph},
            {"delay": 20},
            {"amp": ["const", 40, 5.0], "det": ["const", 40, -3.0], "phase": ph + 0.4},
        ],
        "echo": [
            {"amp": ["const", 50, 8.0], "det": ["const", 50, 1.5], "phase": ph},
            {"amp": ["const", 50, 8.0], "det": ["const", 50, 1.5], "phase": ph + float(np.pi)},
        ],
    }


def _alph(tier):
    if tier == "quick":
        return dict(
            shape=["pair", "bent3"],
            drive=["const", "rampdet", "blackman", "twophase", "interp", "echo", "twosame", "gap"],
            phase=[0.0, 0.7],
            dmm=[0, 1],
            slm=[0, 1, 3],
            dev=["mock"],
            mod=[False],
            dt=[10, 3],
            ev=[[1.0], [0.0, 0.37, 1.0]],
            tol=[1e-10],
            init=[None],
        )
    return dict(
        shape=["one", "pair", "bent3", "tri3", "rect4"],
        drive=["const", "rampdet", "blackman", "twophase", "interp", "echo", "twosame", "gap"],
        phase=[0.0, 0.7, float(np.pi)],
        dmm=[0, 1, 2],
        slm=[0, 1, 2, 3],
        dev=["mock"],
        mod=[False],
        dt=[10, 3, 1, 0.5, 17, 250],
        ev=[[1.0], [0.0, 0.37, 1.0]],
        tol=[1e-10, 1e-6],
        init=[None, "product", "seeded"],
    )


def bounds(tier, seed):
    b = _alph(tier)
    b["run_histories"] = "all ordered pairs of 8 runs differing in register / SLM mask / DMM / user matrix / cutoff / drive, executed back to back in one process"
    b["extra"] = "modulated-device block (dev=mod, with_modulation on/off) and, in thorough, 6- and 10-atom chains once per drive"
    return b


def _mk(shape, drive, phase, dmm, slm, dev, mod, dt, ev, tol, init, seed, coords=None):
    n = len(coords or SHAPES[shape])
    spec = {"coords": coords or SHAPES[shape], "device": dev, "basis": "rydberg", "pulses": drives(phase)[drive]}
    if dmm and n >= 1:
        w = [1.0] + [0.0] * (n - 1) if dmm == 1 else ([0.3, 1.0] + [0.5] * n)[:n]
        spec["dmm"] = {"weights": w, "wfs": [["ramp", 60, 0.0, -5.0], ["const", 40, -2.0]]}
    if slm:
        spec["slm"] = [0] if slm == 1 or n < 3 else ([1, 2] if slm == 2 else [1])  # 3: only the middle atom (zero entries followed by non-zero ones in a row)
    cfg = {"dt": dt, "eval": ev, "krylov_tolerance": tol, "with_modulation": mod, "seed": seed}
    if init == "product":
        cfg["init"] = "product:" + ("10" * n)[:n]
    elif init == "seeded":
        cfg["init"] = "seeded"
    return {"spec": spec, "cfg": cfg, "label": f"{shape}/{drive}/ph{phase:.2f}/dmm{dmm}/slm{slm}/{dev}/mod{int(mod)}"}


def _history_alphabet(seed):
    out = [
        _mk("pair", "const", 0.7, 0, 0, "mock", False, 10, [0.37, 1.0], 1e-10, None, seed),
        _mk("pair", "const", 0.7, 0, 1, "mock", False, 10, [0.37, 1.0], 1e-10, None, seed),
        _mk("pair", "twophase", 0.0, 1, 0, "mock", False, 10, [0.37, 1.0], 1e-10, None, seed),
        _mk("bent3", "const", 0.7, 0, 0, "mock", False, 10, [0.37, 1.0], 1e-10, None, seed),
        _mk("bent3", "const", 0.7, 0, 3, "mock", False, 10, [0.37, 1.0], 1e-10, None, seed),
        _mk("tri3", "const", 0.7, 0, 0, "mock", False, 10, [0.37, 1.0], 1e-10, None, seed),
    ]
    c = _mk("bent3", "const", 0.7, 0, 0, "mock", False, 10, [0.37, 1.0], 1e-10, None, seed)
    c["cfg"]["interaction_matrix"] = [[0.0, 0.0, 7.0], [0.0, 0.0, 3.0], [7.0, 3.0, 0.0]]
    c["label"] += "/custom-sparse"
    out.append(c)
    c = _mk("bent3", "const", 0.7, 0, 0, "mock", False, 10, [0.37, 1.0], 1e-10, None, seed)
    c["cfg"]["interaction_cutoff"] = 10.0
    c["label"] += "/cutoff10"
    out.append(c)
    return out


def cases(tier, seed):
    a = _alph(tier)
    keys = ["shape", "drive", "phase", "dmm", "slm", "dev", "mod", "dt", "ev", "tol", "init"]
    import itertools

    for combo in itertools.product(*[a[k] for k in keys]):
        d = dict(zip(keys, combo))
        n = len(SHAPES[d["shape"]])
        if d["slm"] and n < 2:
            continue
        if d["slm"] in (2, 3) and n < 3:
            continue
        if d["dmm"] == 2 and n < 2:
            continue
        yield _mk(seed=seed, **d)
    # interaction cutoff between the entries of the matrix (bent3: 46.1, 38.5, 1.4 rad/us -> the weak pair is dropped) and a custom sparse matrix
    for drive in ("const", "twophase", "gap"):
        for dt in (10, 3):
            c = _mk("bent3", drive, 0.7, 1, 0, "mock", False, dt, [0.37, 1.0], 1e-10, None, seed)
            c["cfg"]["interaction_cutoff"] = 10.0
            c["label"] += "/cutoff10"
            yield c
            c = _mk("bent3", drive, 0.7, 1, 0, "mock", False, dt, [0.37, 1.0], 1e-10, None, seed)
            c["cfg"]["interaction_matrix"] = [[0.0, 0.0, 7.0], [0.0, 0.0, 3.0], [7.0, 3.0, 0.0]]
            c["label"] += "/custom-sparse"
            yield c
    # run histories (E2): run A, then run B in the same process; B is judged against its own oracle.  All ordered pairs of an alphabet of runs that
    # differ in one feature each (register, SLM mask, DMM, user matrix, cutoff, drive): nothing an earlier run computed may reach a later one
    hist = _history_alphabet(seed)
    for i, a in enumerate(hist):
        for j, b in enumerate(hist):
            if i != j:
                c = dict(b, after={"spec": a["spec"], "cfg": a["cfg"]})
                c["label"] = b["label"] + " after " + a["label"]
                yield c
    # the initial state given through the public amplitude dictionary, with the basis spelled ("r","g") and ["g","r"]
    for shape in ("pair", "bent3"):
        for init in ("product", "seeded"):
            for via in ("amplitudes_rg", "amplitudes_gr"):
                c = _mk(shape, "twophase", 0.7, 0, 0, "mock", False, 10, [0.0, 0.37, 1.0], 1e-10, init, seed)
                c["cfg"]["init_via"] = via
                c["label"] += "/" + via
                yield c
    if tier == "quick":
        # one loose-tolerance run with an SLM mask: exercises the recorded Krylov-accuracy finding in the quick tier as well
        yield _mk("pair", "blackman", 0.0, 0, 1, "mock", False, 3, [1.0], 1e-6, None, seed)
        yield _mk("pair", "blackman", 0.0, 0, 0, "mock", False, 3, [1.0], 1e-6, None, seed)
    # modulation block
    for shape in ["pair", "bent3"] if tier == "quick" else ["pair", "bent3", "rect4"]:
        for drive in ["const", "twophase", "blackman"] if tier == "quick" else ["const", "rampdet", "blackman", "twophase", "interp"]:
            for mod in (False, True):
                for dmm in (0, 1):
                    for dt in (10, 3) if tier == "quick" else (10, 3, 17):
                        for ev in ([1.0], [0.0, 0.37, 1.0]):
                            yield _mk(shape, drive, 0.7, dmm, 0, "mod", mod, dt, ev, 1e-10, None, seed)
    if tier == "thorough":
        for nn in (6, 10):
            for drive in ["const", "rampdet", "blackman", "twophase", "interp"]:
                yield _mk(f"chain{nn}", drive, 0.7, 1, 1, "mock", False, 10, [0.5, 1.0], 1e-10, None, seed, coords=chain(nn))


@functools.lru_cache(maxsize=8)
def _ref(key, rule):
    d = json.loads(key)
    return runner.Ref(d["spec"], d["cfg"], slm_rule=rule)


@functools.lru_cache(maxsize=8)
def _fine(key, rule):
    d = json.loads(key)
    ref = _ref(key, rule)
    if ref.n > 4:
        return None
    idx, end = R.slm(ref.seq)
    Um = R.masked(ref.U, idx)
    Hs, T = R.fine_hamiltonians(
        ref.seq, d["cfg"].get("with_modulation", False), lambda t: Um if t < end else ref.U
    )
    psi = ref.states[0]
    from scipy.linalg import expm

    fine_states = {0: psi}
    # Duhamel bound between fine and step-wise dynamics, and fine states at target times
    bound = 0.0
    tt = ref.times
    k = 0
    cum = {}
    for ns in range(int(T)):
        # advance within [ns, ns+1), cutting at target times
        a = float(ns)
        while k + 1 < len(tt) and tt[k + 1] <= ns + 1 + 1e-12:
            b = tt[k + 1]
            if b > a:
                psi = expm(-1j * (b - a) * 1e-3 * Hs[ns]) @ psi
                bound += np.linalg.norm(Hs[ns] - ref.Hs[k], 2) * (b - a) * 1e-3
            a = b
            k += 1
            fine_states[k] = psi
            cum[k] = bound
        if a < ns + 1 and k < len(ref.Hs):
            psi = expm(-1j * (ns + 1 - a) * 1e-3 * Hs[ns]) @ psi
            bound += np.linalg.norm(Hs[ns] - ref.Hs[k], 2) * (ns + 1 - a) * 1e-3
    return fine_states, cum


def run_case(case):
    spec, cfg = case["spec"], case["cfg"]
    n = len(spec["coords"])
    key = json.dumps({"spec": spec, "cfg": {k: v for k, v in cfg.items() if k != "krylov_tolerance"}}, sort_keys=True)
    if case.get("after"):
        try:
            runner.run_sv(case["after"]["spec"], case["after"]["cfg"])
        except Exception:
            pass  # the earlier run is judged in its own case
    try:
        results, seq = runner.run_sv(spec, cfg)
    except Exception as e:  # the backend accepted nothing: a noiseless rydberg sequence must run
        return result(
            False,
            sig=f"raises|{type(e).__name__}",
            msg=f"SVBackend.run raised {type(e).__name__}: {e} on {case['label']} cfg={cfg}",
            outcome="raise",
        )
    tol = cfg["krylov_tolerance"]
    ref = _ref(key, "start")
    nsteps = len(ref.times) - 1
    tol_state = nsteps * 10 * tol + 1e-10
    tol_obs = 4 * tol_state + 1e-9
    getter = lambda s: runner.to_np(s.data)  # noqa: E731
    bad = runner.compare_results(results, ref, cfg["eval"], tol_state, tol_obs, state_getter=getter)
    if bad and ref.straddle:
        ref2 = _ref(key, "mid")
        bad2 = runner.compare_results(results, ref2, cfg["eval"], tol_state, tol_obs, state_getter=getter)
        if not bad2:
            bad, ref = [], ref2
    if bad and spec.get("slm") is not None:
        # Recorded C07 finding seen through emu-sv: with a far-detuned (SLM-masked) atom the Krylov error estimate declares convergence too early.
        # It is that finding - and nothing else - iff the very same run is exact once the tolerance is tightened, or (with many steps the
        # premature convergence is still visible at 1e-12: 500 x tolerance per step) once krylov_exp is swapped for an exact exponential
        # while everything else of the run stays the real code.
        tight = min(1e-12, tol * 1e-3)
        cfg12 = dict(cfg, krylov_tolerance=tight)
        how = None
        try:
            res12, _ = runner.run_sv(spec, cfg12)
            if not runner.compare_results(res12, ref, cfg["eval"], nsteps * 10 * tight + 1e-10, 4 * (nsteps * 10 * tight + 1e-10) + 1e-9, state_getter=getter):
                how = f"exact at krylov_tolerance={tight:g}"
            elif n <= 6:
                import emu_sv.time_evolution as te
                from scipy.linalg import expm

                def exact_exp(op, v, *a, **k):
                    dim = v.numel()
                    cols = [op(torch.eye(dim, dtype=v.dtype)[:, j].contiguous()) for j in range(dim)]
                    A = torch.stack(cols, dim=1).numpy()
                    return torch.tensor(expm(A) @ v.numpy(), dtype=v.dtype)

                old = te.krylov_exp
                te.krylov_exp = exact_exp
                try:
                    resx, _ = runner.run_sv(spec, cfg)
                finally:
                    te.krylov_exp = old
                if not runner.compare_results(resx, ref, cfg["eval"], 1e-9, 1e-8, state_getter=getter):
                    how = "exact once krylov_exp is replaced by a dense matrix exponential, every other part of the run unchanged"
        except Exception:
            how = None
        if how:
            return result(False, sig="tight|krylov-accuracy-with-far-detuned-masked-atom", msg=f"{case['label']} cfg={cfg}: " + " ; ".join(bad[:2]) + f" ({how})", outcome="mismatchA-krylov")
    if bad:
        return result(
            False,
            sig=f"tight|{bad[0].split(' ')[0].rstrip(':')}",
            msg=f"{case['label']} cfg={cfg}: " + " ; ".join(bad[:4]),
            outcome="mismatchA",
        )
    # oracle B
    fine = _fine(key, "start" if ref is _ref(key, "start") else "mid")
    worstB = 0.0
    if fine is not None:
        fine_states, cum = fine
        for t in cfg["eval"]:
            k = ref.index_of(t)
            got = getter(runner.get_at(results, "state", t))
            errB = np.linalg.norm(got - fine_states[k])
            allowed = cum.get(k, 0.0) + tol_state + 1e-9
            worstB = max(worstB, errB)
            if not errB <= allowed:
                return result(
                    False,
                    sig="loose|state",
                    msg=f"{case['label']} cfg={cfg}: |psi - psi_1ns|={errB:.3e} exceeds discretisation bound {allowed:.3e} at t={t}",
                    outcome="mismatchB",
                )
    final = ref.states[-1]
    moved = np.linalg.norm(final - ref.states[0]) > 1e-3
    occ = R.occupation(final, n)
    return result(True, outcome=["ok", rnd(occ, 4), nsteps], nontrivial=bool(moved), transitions=1)
