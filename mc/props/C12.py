"""
C12 - state-vector / density-matrix / operator objects are faithful to their definitions.

E1: complete product over small alphabets of amplitude dictionaries and operator representations
(every non-empty target set, 1- and 2-factor tensor terms, 1- and 2-term sums), built through the
public from_state_amplitudes / from_operator_repr of StateVector, DensityMatrix, DenseOperator and
SparseOperator, then every pair pushed through +, c*, @, apply_to, expect, inner, norm, overlap.
Oracle: numpy Kronecker construction (g=0, r=1, qubit 0 most significant).
"""
import itertools

import numpy as np
import torch

from mc.core import result
from mc.ref.dense_ham import kron_all

ID = "C12"
LEVEL = "model_checking"
ENGINE = "E1 small-scope product explorer over abstract state/operator representations"
RULE = (
    "case = (N, family, slice); states: every amplitude dictionary with <= k basis strings and amplitudes "
    "from {1,-1,i,0.5,seeded}; operators: every (QuditOp, target set) tensor term, every disjoint 2-factor "
    "term, sums of two; pairs: all (op, op), (op, state), (state, state) combinations of the enumerated "
    "sets; transitions = public API calls; non-trivial = more than one basis string / non-diagonal operator"
)
ASSUMPTIONS = ["reference: numpy Kronecker products in the documented g=0/r=1, MSB-first convention"]
CHUNK = 1

AMPS = [1.0, -1.0, 1j, 0.5]
E = {
    "gg": np.array([[1, 0], [0, 0]], dtype=complex),
    "gr": np.array([[0, 1], [0, 0]], dtype=complex),
    "rg": np.array([[0, 0], [1, 0]], dtype=complex),
    "rr": np.array([[0, 0], [0, 1]], dtype=complex),
}


def _qops(seed):
    r = np.random.RandomState(41 + seed)
    c = (r.normal(size=4) + 1j * r.normal(size=4)).round(3)
    return {
        "n": {"rr": 1.0},
        "X": {"gr": 1.0, "rg": 1.0},
        "Y": {"gr": -1j, "rg": 1j},
        "s+": {"rg": 1.0},
        "mix": {"gg": complex(c[0]), "gr": complex(c[1]), "rg": complex(c[2]), "rr": complex(c[3])},
    }


def _qop_mat(q):
    return sum(v * E[k] for k, v in q.items())


def _ns(tier):
    return [1, 2, 3] if tier == "quick" else [1, 2, 3, 4]


def bounds(tier, seed):
    return {
        "N": _ns(tier),
        "amplitude_alphabet": [str(a) for a in AMPS] + ["seeded complex"],
        "max_strings": 2 if tier == "quick" else 3,
        "qudit_ops": list(_qops(seed)),
        "targets": "every non-empty subset of qubits; 2-factor terms on every ordered pair of disjoint subsets (N<=3)",
        "bases": [["r", "g"], ["g", "r"], ["0", "1"], ["r", "g", "x"]],
    }


def _state_dicts(n, kmax, seed):
    r = np.random.RandomState(97 + seed)
    amps = AMPS + [complex(np.round(r.normal() + 1j * r.normal(), 3))]
    strings = ["".join(s) for s in itertools.product("gr", repeat=n)]
    for k in range(1, kmax + 1):
        for combo in itertools.combinations(strings, k):
            for a in itertools.product(amps, repeat=k):
                yield dict(zip(combo, a))


def _tensor_terms(n, seed):
    q = _qops(seed)
    subsets = [s for k in range(1, n + 1) for s in itertools.combinations(range(n), k)]
    terms = []
    for name in q:
        for s in subsets:
            terms.append([(name, list(s))])
    if n >= 2:
        for a, b in itertools.permutations(list(q)[:4], 2):
            for s1 in subsets:
                for s2 in subsets:
                    if set(s1) & set(s2) or len(s1) + len(s2) > 2:
                        continue
                    terms.append([(a, list(s1)), (b, list(s2))])
    return terms


def cases(tier, seed):
    kmax = 2 if tier == "quick" else 3
    for n in _ns(tier):
        if n == 4 and tier == "thorough":
            kmax_n = 2
        else:
            kmax_n = kmax
        yield {"family": "states", "N": n, "kmax": kmax_n, "seed": seed}
        nt = len(_tensor_terms(n, seed))
        for lo in range(0, nt, 40):
            yield {"family": "ops", "N": n, "lo": lo, "hi": min(nt, lo + 40), "seed": seed}
        for lo in range(0, nt, 25):
            yield {"family": "pairs", "N": n, "lo": lo, "hi": min(nt, lo + 25), "seed": seed}
    yield {"family": "bases", "seed": seed}


def _ref_vec(n, d):
    v = np.zeros(2**n, dtype=complex)
    for s, a in d.items():
        v[int(s.replace("r", "1").replace("g", "0"), 2)] = a
    return v / np.linalg.norm(v)


def _ref_term(n, term, seed):
    q = _qops(seed)
    mats = [np.eye(2, dtype=complex)] * n
    mats = list(mats)
    for name, targets in term:
        for t in targets:
            mats[t] = _qop_mat(q[name])
    return kron_all(mats)


def _repr_term(term, seed):
    q = _qops(seed)
    return [(q[name], set(targets)) for name, targets in term]


def _np(t):
    t = t.data if hasattr(t, "data") and not isinstance(t, torch.Tensor) else t
    if t.layout != torch.strided:
        t = t.to_dense()
    return t.detach().cpu().numpy()


def run_case(case):
    from emu_sv import DenseOperator, DensityMatrix, SparseOperator, StateVector

    fam, seed = case["family"], case["seed"]
    calls = 0
    if fam == "bases":
        bad = []
        for eig, amp in ((("0", "1"), {"01": 1.0}), (("r", "g", "x"), {"rgx": 1.0}), (("u", "d"), {"ud": 1.0})):
            for cls in (StateVector, DensityMatrix):
                calls += 1
                try:
                    cls.from_state_amplitudes(eigenstates=eig, amplitudes=amp)
                    bad.append(f"{cls.__name__} accepted eigenstates {eig}")
                except Exception:
                    pass
            for cls in (DenseOperator, SparseOperator):
                calls += 1
                try:
                    cls.from_operator_repr(eigenstates=eig, n_qudits=2, operations=[(1.0, [({eig[0] + eig[0]: 1.0}, {0})])])
                    bad.append(f"{cls.__name__} accepted eigenstates {eig}")
                except Exception:
                    pass
        # eigenstate order must not matter for (g, r)
        a = StateVector.from_state_amplitudes(eigenstates=("g", "r"), amplitudes={"rg": 1.0, "gg": 0.5})
        b = StateVector.from_state_amplitudes(eigenstates=("r", "g"), amplitudes={"rg": 1.0, "gg": 0.5})
        if not np.abs(_np(a) - _np(b)).max() <= 0:  # NaN fails
            bad.append("state depends on the order in which eigenstates are listed")
        if bad:
            return result(False, sig="bases", msg="; ".join(bad), outcome="viol")
        return result(True, outcome="bases", transitions=calls)

    n = case["N"]
    if fam == "states":
        count = nontriv = 0
        dicts = list(_state_dicts(n, case["kmax"], seed))
        refs = []
        svs = []
        for d in dicts:
            ref = _ref_vec(n, d)
            sv = StateVector.from_state_amplitudes(eigenstates=("r", "g"), amplitudes=d)
            dm = DensityMatrix.from_state_amplitudes(eigenstates=("r", "g"), amplitudes=d)
            calls += 2
            count += 1
            nontriv += len(d) > 1
            if not np.abs(_np(sv) - ref).max() <= 1e-13:  # NaN fails
                return result(False, sig="StateVector.from_state_amplitudes", msg=f"amplitudes {d}: got {_np(sv).tolist()} expected {ref.tolist()}", outcome="viol")
            if not np.abs(_np(dm) - np.outer(ref, ref.conj())).max() <= 1e-13:  # NaN fails
                return result(False, sig="DensityMatrix.from_state_amplitudes", msg=f"amplitudes {d}: density matrix != |psi><psi|", outcome="viol")
            if abs(float(sv.norm()) - 1) > 1e-13 or sv.n_qudits != n or dm.n_qudits != n:
                return result(False, sig="state-norm-or-size", msg=f"amplitudes {d}: norm {float(sv.norm())} n_qudits {sv.n_qudits}", outcome="viol")
            dm2 = DensityMatrix.from_state_vector(sv)
            if not np.abs(_np(dm2) - _np(dm)).max() <= 1e-13:  # NaN fails
                return result(False, sig="from_state_vector", msg=f"amplitudes {d}", outcome="viol")
            refs.append(ref)
            svs.append((sv, dm))
        # pairs of states: a strided slice (every state appears; all pairs for the first 40)
        idx = list(range(len(svs)))
        pairs = [(i, j) for i in idx[:40] for j in idx[:40]] + [(i, (7 * i + 3) % len(idx)) for i in idx]
        for i, j in pairs:
            (a, da), (b, db) = svs[i], svs[j]
            ra, rb = refs[i], refs[j]
            calls += 5
            ip = complex(a.inner(b))
            if not abs(ip - np.vdot(ra, rb)) <= 1e-13:  # NaN fails
                return result(False, sig="StateVector.inner", msg=f"<{dicts[i]}|{dicts[j]}> = {ip} expected {np.vdot(ra, rb)}", outcome="viol")
            if not abs(float(a.overlap(b)) - abs(np.vdot(ra, rb)) ** 2) <= 1e-13:  # NaN fails
                return result(False, sig="StateVector.overlap", msg=f"{dicts[i]} {dicts[j]}", outcome="viol")
            ov = complex(da.overlap(db))
            if not abs(ov - abs(np.vdot(ra, rb)) ** 2) <= 1e-13:  # NaN fails
                return result(False, sig="DensityMatrix.overlap", msg=f"{dicts[i]} {dicts[j]}: {ov}", outcome="viol")
            s = a + b
            t = (0.3 - 2j) * a
            if np.abs(_np(s) - (ra + rb)).max() > 1e-13 or np.abs(_np(t) - (0.3 - 2j) * ra).max() > 1e-13:
                return result(False, sig="StateVector.add-or-scale", msg=f"{dicts[i]} {dicts[j]}", outcome="viol")
            if np.abs(_np(a) - ra).max() > 1e-13 or np.abs(_np(b) - rb).max() > 1e-13:
                return result(False, sig="operand-mutated", msg=f"{dicts[i]} {dicts[j]}", outcome="viol")
        # arbitrary complex (also non-Hermitian) matrices held in DensityMatrix objects: overlap is documented as Tr(self^dag other)  (+ and c* are explicitly not implemented for density matrices)
        rs = np.random.RandomState(77 + seed + n)
        mats = [rs.normal(size=(2**n, 2**n)) + 1j * rs.normal(size=(2**n, 2**n)) for _ in range(4)]
        mats.append(np.outer(refs[0], refs[min(1, len(refs) - 1)].conj()))  # a coherence |psi><phi|
        dms = [DensityMatrix(torch.tensor(mm, dtype=torch.complex128), gpu=False) for mm in mats]
        for i, j in itertools.product(range(len(mats)), repeat=2):
            calls += 2
            ov = complex(dms[i].overlap(dms[j]))
            exp = np.trace(mats[i].conj().T @ mats[j])
            if not abs(ov - exp) <= 1e-11 * max(1.0, abs(exp)):  # NaN fails
                return result(False, sig="DensityMatrix.overlap-general", msg=f"N={n}: overlap of two complex matrices is {ov}, Tr(A^dag B) = {exp}", outcome="viol")
        return result(True, outcome=["states", n, count], states=count, transitions=calls, nontrivial=nontriv > 0)

    terms = _tensor_terms(n, seed)
    sel = terms[case["lo"] : case["hi"]]
    r = np.random.RandomState(5 + seed)
    psi = r.normal(size=2**n) + 1j * r.normal(size=2**n)
    psi /= np.linalg.norm(psi)
    from emu_sv import StateVector as SV

    svpsi = SV(torch.tensor(psi), gpu=False)
    if fam == "ops":
        for k, term in enumerate(sel):
            others = [terms[(case["lo"] + k + 11) % len(terms)]]
            for full in ([(1.0, term)], [(0.5 - 1j, term), (2.0, others[0])]):
                ops_repr = [(c, _repr_term(t, seed)) for c, t in full]
                ref = sum(c * _ref_term(n, t, seed) for c, t in full)
                dn = DenseOperator.from_operator_repr(eigenstates=("r", "g"), n_qudits=n, operations=ops_repr)
                sp = SparseOperator.from_operator_repr(eigenstates=("r", "g"), n_qudits=n, operations=ops_repr)
                calls += 6
                if not np.abs(_np(dn) - ref).max() <= 1e-12:  # NaN fails
                    return result(False, sig="DenseOperator.from_operator_repr", msg=f"N={n} operations {full}: dense operator differs from the Kronecker construction", outcome="viol")
                if not np.abs(_np(sp) - ref).max() <= 1e-12:  # NaN fails
                    return result(False, sig="SparseOperator.from_operator_repr", msg=f"N={n} operations {full}: sparse operator differs from the Kronecker construction", outcome="viol")
                for op, nm in ((dn, "Dense"), (sp, "Sparse")):
                    got = _np(op.apply_to(svpsi))
                    if not np.abs(got - ref @ psi).max() <= 1e-12:  # NaN fails
                        return result(False, sig=f"{nm}Operator.apply_to", msg=f"N={n} operations {full}", outcome="viol")
                    ex = complex(op.expect(svpsi))
                    if not abs(ex - np.vdot(psi, ref @ psi)) <= 1e-12:  # NaN fails
                        return result(False, sig=f"{nm}Operator.expect", msg=f"N={n} operations {full}: {ex}", outcome="viol")
        return result(True, outcome=["ops", n, case["lo"]], states=2 * len(sel), transitions=calls, nontrivial=True)

    # pairs
    built = []
    for t in terms:
        rep = [(1.0, _repr_term(t, seed))]
        built.append((DenseOperator.from_operator_repr(eigenstates=("r", "g"), n_qudits=n, operations=rep), SparseOperator.from_operator_repr(eigenstates=("r", "g"), n_qudits=n, operations=rep), _ref_term(n, t, seed)))
    step = max(1, len(terms) // 30)
    for i in range(case["lo"], case["hi"]):
        d1, s1, r1 = built[i]
        for j in range(0, len(terms), step):
            d2, s2, r2 = built[j]
            calls += 5
            if not np.abs(_np(d1 @ d2) - r1 @ r2).max() <= 1e-12:  # NaN fails
                return result(False, sig="DenseOperator.matmul", msg=f"N={n} {terms[i]} @ {terms[j]}", outcome="viol")
            if np.abs(_np(d1 + d2) - (r1 + r2)).max() > 1e-12 or np.abs(_np(s1 + s2) - (r1 + r2)).max() > 1e-12:
                return result(False, sig="Operator.add", msg=f"N={n} {terms[i]} + {terms[j]}", outcome="viol")
            if np.abs(_np((2 - 1j) * d1) - (2 - 1j) * r1).max() > 1e-12 or np.abs(_np((2 - 1j) * s1) - (2 - 1j) * r1).max() > 1e-12:
                return result(False, sig="Operator.rmul", msg=f"N={n} {terms[i]}", outcome="viol")
            if np.abs(_np(d1) - r1).max() > 1e-12 or np.abs(_np(s2) - r2).max() > 1e-12:
                return result(False, sig="operand-mutated", msg=f"N={n} {terms[i]} {terms[j]}", outcome="viol")
    return result(True, outcome=["pairs", n, case["lo"]], states=case["hi"] - case["lo"], transitions=calls, nontrivial=True)
