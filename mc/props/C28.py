"""
C28 - noiseless evolution conserves norm, and energy when the drive is constant.

E1, no dense reference (sizes go beyond it): complete product register {chain / ladder, N = 2..8 (thorough: ..20)} x drive {one constant
window, two constant windows, + per-atom constant DMM} x dt x backend configuration (emu-sv krylov_tolerance; emu-mps precision,
max_bond_dim), StateResult / Energy / EnergySecondMoment at EVERY grid point of a real run.
Oracle: norm 1 at every evaluation time; inside each window of constant Hamiltonian the energy and its second moment are constant,
within n_steps x (Krylov tolerance resp. truncation precision) x |H|-bound computed from the drive and interaction parameters.
"""
import contextlib
import io
import itertools
import logging

import numpy as np

from mc import pulser_kit as kit
from mc import runner
from mc.core import result, rnd
from mc.ref import pulser_ref as R

ID = "C28"
LEVEL = "model_checking"
ENGINE = "E1 small-scope product explorer over (register size/shape, window structure, local drive, dt, backend configuration)"
RULE = (
    "case = one point of the product; one real run with state/energy/second moment at every grid point; distinct = distinct case "
    "dicts; non-trivial = the state leaves the initial state (occupation > 1e-3)"
)
ASSUMPTIONS = [
    "|H| bound = sum_i (|Omega_i|/2 + |delta_i|) + sum_{i<j} |U_ij| from the sequence parameters (no dense matrix)",
    "energy drift allowed inside a constant window: emu-sv 10 tol |H|, emu-mps 0.1 precision |H| (second moment: times |H| again) - 20-50x the largest drift measured on the unchanged tree (0.21 tol |H| resp. 5e-3 precision |H|^2)",
    "emu-mps reports explicitly normalised states: norm tolerance 1e-9 whatever the truncation",
    "when max_bond_dim binds only the norm statement is required",
]
CHUNK = 1


def _regs(tier):
    r = {"pair": kit.chain(2), "chain3": kit.chain(3), "chain5": kit.chain(5), "ladder8": kit.ladder(8), "weak6": kit.chain(6, 11.0), "weak8": kit.chain(8, 11.0), "weak6b": kit.chain(6, 9.0)}
    if tier == "thorough":
        r.update({"chain12": kit.chain(12), "ladder16": kit.ladder(16), "chain20": kit.chain(20), "weak12": kit.chain(12, 11.0)})
    return r


def bounds(tier, seed):
    return {
        "registers": list(_regs(tier)) + ["weak*: chains at 11 / 9 um with max_bond_dim 2 and 3 (the state fits, H|psi> does not)"],
        "windows": ["one: Omega 5, delta 2, 120 ns", "two: (5, 2) 60 ns then (3, -4) 60 ns"],
        "dmm": [False, True],
        "dt": [10, 4],
        "sv": {"krylov_tolerance": [1e-10, 1e-6]},
        "mps": {"precision": [1e-5, 1e-7, "1e-2 (norm only)"], "max_bond_dim": ["unbounded", 4, "8 on chain5 (cannot bind for the state)", "2 on ladder8 (norm only)"]},
    }


def cases(tier, seed):
    if tier == "quick":
        yield {"backend": "mps", "reg": "ladder16", "win": "one", "dmm": False, "dt": 10, "precision": 1e-5, "cap": None, "second_moment_large": True}
    for reg, coords in _regs(tier).items():
        n = len(coords)
        if reg.startswith("weak"):
            # weakly interacting chain with a bond cap of 2 (3): the state itself fits (measured drift of <H^2> <= 1.8e-5 relative), H|psi> does not
            for win in ("one", "two"):
                for cap in (2, 3):
                    yield {"backend": "mps", "reg": reg, "win": win, "dmm": False, "dt": 10, "precision": 1e-5, "cap": cap, "weakcap": True}
            continue
        for win, dmm, dt in itertools.product(("one", "two"), (False, True), (10, 4)):
            if n <= 12:
                for tol in (1e-10, 1e-6):
                    yield {"backend": "sv", "reg": reg, "win": win, "dmm": dmm, "dt": dt, "tol": tol}
            for prec in (1e-5, 1e-7, 1e-2):
                for cap in (None, 4, 8, 2):
                    if cap and (n < 5 or dt != 10):
                        continue
                    if cap == 8 and n != 5:
                        continue  # chain5: the state's bond dimension is at most 4, a cap of 8 can never bind for the state
                    if cap == 2 and n != 8:
                        continue
                    if prec == 1e-2 and (cap or dt != 10 or n < 5 or n > 8):
                        continue
                    if n >= 12 and (prec != 1e-5 or dt != 10):
                        continue
                    yield {"backend": "mps", "reg": reg, "win": win, "dmm": dmm, "dt": dt, "precision": prec, "cap": cap}
        if n > 12:
            # the second moment of large registers is requested in a case of its own (recorded finding: it aborts the run)
            yield {"backend": "mps", "reg": reg, "win": "one", "dmm": False, "dt": 10, "precision": 1e-5, "cap": None, "second_moment_large": True}


def run_case(case):
    import emu_mps as m
    import emu_sv as sv

    coords = _regs("thorough")[case["reg"]]
    n = len(coords)
    if case["win"] == "one":
        pulses = [{"amp": ["const", 120, 5.0], "det": ["const", 120, 2.0], "phase": 0.3}]
        windows = [(0.0, 120.0)]
    else:
        pulses = [{"amp": ["const", 60, 5.0], "det": ["const", 60, 2.0], "phase": 0.3}, {"amp": ["const", 60, 3.0], "det": ["const", 60, -4.0], "phase": 0.3}]
        windows = [(0.0, 60.0), (60.0, 120.0)]
    spec = {"coords": coords, "device": "mock", "basis": "rydberg", "pulses": pulses}
    if case["dmm"]:
        spec["dmm"] = {"weights": [((3 * i) % 5) / 5 for i in range(n)], "wfs": [["const", 120, -6.0]]}
    seq = kit.build_sequence(spec)
    T = 120.0
    dt = case["dt"]
    grid = [i * dt for i in range(int(T // dt) + 1)]
    ev = [t / T for t in grid]
    label = " ".join(f"{k}={v}" for k, v in case.items())
    mod = sv if case["backend"] == "sv" else m
    with_state = n <= 12
    want_m2 = n <= 12 or case.get("second_moment_large", False)
    obs = [mod.Energy(evaluation_times=ev), mod.Occupation(evaluation_times=[1.0])] + ([mod.EnergySecondMoment(evaluation_times=ev)] if want_m2 else [])
    if with_state:
        obs.append(mod.StateResult(evaluation_times=ev))
    try:
        with contextlib.redirect_stdout(io.StringIO()):
            if mod is sv:
                cfg = sv.SVConfig(dt=dt, krylov_tolerance=case["tol"], observables=obs, log_level=logging.CRITICAL, gpu=False)
                res = sv.SVBackend(seq, config=cfg).run()
            else:
                kw = {"max_bond_dim": case["cap"]} if case["cap"] else {}
                cfg = m.MPSConfig(dt=dt, precision=case["precision"], observables=obs, log_level=logging.CRITICAL, num_gpus_to_use=0, optimize_qubit_ordering=False, **kw)
                res = m.MPSBackend(seq, config=cfg).run()
    except Exception as e:
        import traceback

        tb = "".join(traceback.format_tb(e.__traceback__))
        if isinstance(e, AssertionError) and "energy_second_moment_mps_impl" in tb and n > 12:
            return result(False, sig="raises|mps|energy_second_moment asserts |Im <H^2>| < 1e-4 (absolute) on a large register", msg=f"{label}: AssertionError in energy_second_moment_mps_impl", outcome="raise-m2")
        return result(False, sig=f"raises|{case['backend']}|{type(e).__name__}", msg=f"{label}: {type(e).__name__}: {str(e)[:300]}", outcome="raise")
    U = R.interaction(seq, "rydberg")
    Hb = n * (5.0 / 2 + 4.0 + (6.0 if case["dmm"] else 0.0)) + np.abs(np.triu(U, 1)).sum()
    nsteps = len(grid) - 1
    if mod is sv:
        tol_norm = nsteps * 10 * case["tol"] + 1e-10
        tol_e = 10 * case["tol"] * Hb + 1e-10 * Hb  # measured on the unchanged tree: <= 0.21 tol |H|
    else:
        tol_norm = 1e-9  # emu-mps reports the state explicitly normalised, whatever the truncation discarded
        tol_e = 0.1 * case["precision"] * Hb + 1e-9 * Hb  # measured on the unchanged tree: <= 5e-3 precision |H| (energy), 5e-3 precision |H|^2 (second moment)
    capped = (case.get("cap") is not None and case["cap"] < 2 ** (n // 2) and not case.get("weakcap")) or case.get("precision") == 1e-2
    if with_state:
        for t in ev:
            st = runner.get_at(res, "state", t)
            nrm = float(st.norm())
            if not abs(nrm - 1) <= tol_norm:  # NaN fails
                return result(False, sig=f"norm|{case['backend']}", msg=f"{label}: |psi| = {nrm!r} at t={t * T:.1f} ns (allowed deviation {tol_norm:.1e})", outcome="norm")
    if not capped:
        for (a, b) in windows:
            ks = [t for t, g in zip(ev, grid) if a < g <= b + 1e-9] + ([ev[0]] if a == 0.0 else [])
            for tag, scale in (("energy", 1.0),) + ((("energy_second_moment", Hb),) if want_m2 else ()):
                vals = np.array([float(np.real(runner.to_np(runner.get_at(res, tag, t)))) for t in sorted(ks)])
                drift = float(vals.max() - vals.min())
                allowed = tol_e * scale
                if case.get("weakcap") and tag == "energy_second_moment":
                    allowed = 2e-4 * float(np.abs(vals).max())  # class bound: 10x the largest relative drift measured on the unchanged tree (1.8e-5)
                if case.get("weakcap") and tag == "energy":
                    allowed = 1e-6 * Hb
                if drift > allowed:
                    return result(False, sig=f"{tag}|{case['backend']}|{case['win']}", msg=f"{label}: {tag} varies by {drift:.3e} inside the constant window ({a}, {b}] ns (allowed {allowed:.1e}); values {np.round(vals, 6).tolist()[:8]}...", outcome="drift")
    occ = runner.to_np(runner.get_at(res, "occupation", 1.0)).astype(float)
    return result(True, outcome=["ok", rnd(occ, 3)], nontrivial=bool(occ.max() > 1e-3))
