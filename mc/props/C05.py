"""
C05 - the MPO Hamiltonian equals the dense neutral-atom Hamiltonian.

E1 small-scope product explorer: ALL 2^(N(N-1)/2) interaction sparsity patterns for every N in
the bound x {Rydberg, XY} x dim {2,3}; per pattern three chained transitions on the same MPO
object (make_H+update_H, in-place update with other values and a complex noise term, in-place
update back) each compared with the dense reference.
"""
import contextlib
import io
import itertools

import numpy as np
import torch

from mc.core import result, seeded_values
from mc.ref.dense_ham import dense_hamiltonian
from mc.ref.mps_dense import mpo_to_mat

ID = "C05"
LEVEL = "model_checking"
ENGINE = "E1 small-scope product explorer (all sparsity patterns) with chained in-place updates"
RULE = (
    "case = (N, interaction type, level count, sparsity pattern bitmask); every bitmask of the "
    "N(N-1)/2 pairs is enumerated; non-zero pairs carry pairwise distinct signed values; three "
    "update_H transitions are applied to the same MPO and each contraction is compared with the "
    "Kronecker reference. Non-trivial = at least one interacting pair."
)
ASSUMPTIONS = [
    "dense reference written from Pulser's documented convention (mc/ref/dense_ham.py)",
    "interaction values/drives outside the alphabets and N above the bound are not covered",
]
CHUNK = {"quick": 8, "thorough": 128}

NS = {"quick": [2, 3, 4, 5], "thorough": [2, 3, 4, 5, 6]}
N7 = {"quick": False, "thorough": True}


def bounds(tier, seed):
    return {
        "N": NS[tier] + ([7] if N7[tier] else []),
        "patterns": "all 2^(N(N-1)/2) per N (N=7: Rydberg dim 2 only)",
        "interaction_values": "pairwise distinct, mixed sign; and for N=3..5, dim 2, every pattern with >= 2 entries again with equal-magnitude alternating-sign values (row sums cancel exactly)",
        "types": ["rydberg", "xy"],
        "dims": [2, 3],
        "transitions_per_pattern": "4 chained in-place updates (the last one changes only the phases)",
    }


def cases(tier, seed):
    for n in NS[tier]:
        npairs = n * (n - 1) // 2
        for kind in ("rydberg", "xy"):
            for dim in (2, 3):
                for pat in range(2**npairs):
                    yield {"N": n, "kind": kind, "dim": dim, "pattern": pat, "seed": seed}
                    if n >= 3 and bin(pat).count("1") >= 2 and n <= 5 and dim == 2:
                        # equal-magnitude alternating-sign values: the couplings of one atom to several others cancel exactly
                        yield {"N": n, "kind": kind, "dim": dim, "pattern": pat, "seed": seed, "values": "cancel"}
    # histories: MPOs built and updated one after the other from the SAME tensor objects, which the caller changes in place in between
    for n in (2, 3, 4):
        for kind in ("rydberg", "xy"):
            for depth in (1, 2) if tier == "quick" else (1, 2, 3):
                for hist in itertools.product(HIST_OPS, repeat=depth):
                    yield {"family": "history", "N": n, "kind": kind, "dim": 2, "hist": list(hist), "seed": seed}
    if N7[tier]:
        for pat in range(2**21):
            yield {"N": 7, "kind": "rydberg", "dim": 2, "pattern": pat, "seed": seed}


_CACHE = {}


def _tables(seed, n):
    key = (seed, n)
    if key not in _CACHE:
        npairs = n * (n - 1) // 2
        mags = seeded_values(seed, npairs + 4 * n, 0.3, 3.0)
        uvals = [m * (-1) ** k for k, m in enumerate(mags[:npairs])]
        rest = mags[npairs:]
        om1 = rest[:n]
        de1 = [(-1) ** (k + 1) * v for k, v in enumerate(rest[n : 2 * n])]
        ph1 = [v - 1.5 for v in rest[2 * n : 3 * n]]
        om2 = [0.0 if k % 2 == 0 else v + 0.5 for k, v in enumerate(rest[3 * n : 4 * n])]
        de2 = [0.0 if k % 3 == 1 else -v for k, v in enumerate(rest[:n])]
        ph2 = [0.0 if k % 2 == 1 else v for k, v in enumerate(rest[n : 2 * n])]
        r = np.random.RandomState(seed + 17)
        noise3 = r.normal(size=(3, 3)) + 1j * r.normal(size=(3, 3))
        _CACHE[key] = (uvals, (om1, de1, ph1), (om2, de2, ph2), noise3)
    return _CACHE[key]


HIST_OPS = ["mutU+make", "mutOmega+update", "mutDelta+update", "mutPhi+update", "updateOther"]


def _history_case(case):
    """Every live MPO must represent the values its inputs held when it was last built / updated, whatever happened to those tensors or to other MPOs since."""
    from emu_base import HamiltonianType
    from emu_mps.hamiltonian import make_H, update_H

    n, kind, dim, seed = case["N"], case["kind"], case["dim"], case["seed"]
    uvals, p1, p2, _ = _tables(seed, n)
    U = torch.zeros(n, n, dtype=torch.float64)
    for k, (i, j) in enumerate(itertools.combinations(range(n), 2)):
        U[i, j] = U[j, i] = uvals[k]
    htype = HamiltonianType.Rydberg if kind == "rydberg" else HamiltonianType.XY
    cur = {"omega": torch.tensor(p1[0], dtype=torch.complex128), "delta": torch.tensor(p1[1], dtype=torch.complex128), "phi": torch.tensor(p1[2], dtype=torch.complex128)}
    zero = torch.zeros(dim, dim, dtype=torch.complex128)
    live = []  # [MPO, expected dense matrix]

    def build():
        with contextlib.redirect_stdout(io.StringIO()):
            H = make_H(interaction_matrix=U, hamiltonian_type=htype, dim=dim, num_gpus_to_use=0)
        return H, U.numpy().copy()

    def upd(entry):
        update_H(hamiltonian=entry[0], omega=cur["omega"], delta=cur["delta"], phi=cur["phi"], noise=zero.clone())
        entry[2] = dense_hamiltonian(cur["omega"].real.tolist(), cur["delta"].real.tolist(), cur["phi"].real.tolist(), entry[1], kind=kind, dim=dim, noise=np.zeros((dim, dim)))

    H, Ucopy = build()
    live.append([H, Ucopy, None])
    upd(live[0])
    napp = 0
    for step, op in enumerate([None] + case["hist"]):
        if op == "mutU+make":
            U[0, 1] += 1.3
            U[1, 0] += 1.3
            H, Ucopy = build()
            live.append([H, Ucopy, None])
            upd(live[-1])
        elif op == "mutOmega+update":
            cur["omega"][0] *= 0.5
            upd(live[0])
        elif op == "mutDelta+update":
            cur["delta"][n - 1] += 2.2
            upd(live[0])
        elif op == "mutPhi+update":
            cur["phi"][0] += 0.7
            upd(live[0])
        elif op == "updateOther":
            # a second MPO of the same unchanged interaction matrix, driven differently: the first one must not notice
            H, Ucopy = build()
            e = [H, Ucopy, None]
            saved = dict(cur)
            cur.update(omega=torch.tensor(p2[0], dtype=torch.complex128), delta=torch.tensor(p2[1], dtype=torch.complex128), phi=torch.tensor(p2[2], dtype=torch.complex128))
            upd(e)
            cur.update(saved)
            live.append(e)
        for k, (H, _, ref) in enumerate(live):
            napp += 1
            got = mpo_to_mat(H.factors)
            err = np.abs(got - ref).max() / max(1.0, np.abs(ref).max())
            if not err < 1e-12:
                return result(
                    False,
                    sig=f"history|{kind}|after={op}|mpo{min(k, 1)}",
                    msg=f"after step {step} ({op}) of the history {case['hist']} MPO number {k} differs from the dense Hamiltonian of the inputs it was last given by {err:.2e}; N={n} kind={kind}",
                    outcome="mismatch",
                    transitions=napp,
                )
    return result(True, outcome=["history", kind, n, len(live)], transitions=napp, nontrivial=True)


def run_case(case):
    from emu_base import HamiltonianType
    from emu_mps.hamiltonian import make_H, update_H

    if case.get("family") == "history":
        return _history_case(case)

    n, kind, dim, pat, seed = case["N"], case["kind"], case["dim"], case["pattern"], case["seed"]
    uvals, p1, p2, noise3 = _tables(seed, n)
    U = np.zeros((n, n))
    cancel = case.get("values") == "cancel"
    live = 0
    for k, (i, j) in enumerate(itertools.combinations(range(n), 2)):
        if pat >> k & 1:
            U[i, j] = U[j, i] = (1.5 if live % 2 == 0 else -1.5) if cancel else uvals[k]
            live += 1
    htype = HamiltonianType.Rydberg if kind == "rydberg" else HamiltonianType.XY
    noise = noise3[:dim, :dim]
    zero = np.zeros((dim, dim), dtype=complex)

    def t(x):
        return torch.tensor(np.asarray(x), dtype=torch.complex128)

    with contextlib.redirect_stdout(io.StringIO()):
        H = make_H(
            interaction_matrix=torch.tensor(U, dtype=torch.float64),
            hamiltonian_type=htype,
            dim=dim,
            num_gpus_to_use=0,
        )
    ph_only = (p1[0], p1[1], [v + 0.8 for v in p1[2]])  # same amplitudes, detunings and noise term as the previous update, other phases
    steps = [("update1", p1, zero), ("update2+noise", p2, noise), ("update3-back", p1, zero), ("update4-phase-only", ph_only, zero)]
    worst = 0.0
    for name, (om, de, ph), nz in steps:
        update_H(hamiltonian=H, omega=t(om), delta=t(de), phi=t(ph), noise=t(nz).clone())
        got = mpo_to_mat(H.factors)
        ref = dense_hamiltonian(om, de, ph, U, kind=kind, dim=dim, noise=nz)
        scale = max(1.0, np.abs(ref).max())
        err = np.abs(got - ref).max() / scale
        worst = max(worst, err)
        if not err < 1e-12:
            idx = np.unravel_index(np.abs(got - ref).argmax(), ref.shape)
            return result(
                False,
                sig=f"{kind}|dim{dim}|N{n}|{name}",
                msg=f"MPO != dense Hamiltonian after {name}: pattern={pat:b} U={U.tolist()} "
                f"max rel err {err:.3e} at {idx}: got {got[idx]} ref {ref[idx]}",
                outcome="mismatch",
                transitions=4,
            )
    bond = [f.shape[-1] for f in H.factors[:-1]]
    return result(True, outcome=["ok", bond], transitions=4, nontrivial=pat != 0)
