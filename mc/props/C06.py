"""
C06 - emu-sv operators apply exactly the Hamiltonian and Lindbladian they represent.

E1: complete product N x drive-value pattern x phase pattern x ALL interaction sparsity patterns x
jump-operator list, plus E2 histories (operators built one after the other from the same input tensors, each changed in place between
constructions: all histories over {U, delta, omega, phi, jump} up to depth 2/3); the linear maps are probed on a full basis (every computational basis vector
for H; every Hermitian matrix unit E_ij+E_ji, i(E_ij-E_ji) for the Lindbladian) plus one seeded
element, and compared with the dense reference.  The batched (GPU) kernel is compared with plain
matmul on every reachable shape, and the Lindbladian is re-run with tensors that report
is_cpu=False so that the real code takes its batched branch.
"""
import itertools

import numpy as np
import torch

from mc.core import result, seeded_values
from mc.ref.dense_ham import dense_hamiltonian, embed

ID = "C06"
LEVEL = "model_checking"
ENGINE = "E1 small-scope product explorer probing the linear maps on a complete basis"
RULE = (
    "case = (N, omega pattern, delta pattern, phase pattern, interaction sparsity bitmask, jump-operator "
    "list); every bitmask of the N(N-1)/2 pairs is enumerated; H is probed on all 2^N basis vectors, the "
    "Lindbladian on all 4^N Hermitian basis matrices (+1 seeded each); transitions = operator applications; "
    "non-trivial = some non-zero drive or interaction"
)
ASSUMPTIONS = [
    "dense reference from Pulser's documented convention (mc/ref/dense_ham.py) and the textbook Lindblad generator",
    "the batched kernel is exercised on CPU tensors that report is_cpu=False (no CUDA device in the sandbox)",
]
CHUNK = 4

UNIT = {
    "e00": [[1, 0], [0, 0]],
    "e01": [[0, 1], [0, 0]],
    "e10": [[0, 0], [1, 0]],
    "e11": [[0, 0], [0, 1]],
    "sz": [[0.5, 0], [0, -0.5]],
}


def _jump_lists(seed):
    r = np.random.RandomState(3 + seed)
    cx = (r.normal(size=(2, 2)) + 1j * r.normal(size=(2, 2))).tolist()
    six = [(r.normal(size=(2, 2)) + 1j * r.normal(size=(2, 2))).tolist() for _ in range(6)]
    lists = {"none": []}
    for k, v in UNIT.items():
        lists[k] = [v]
    lists["complex"] = [cx]
    lists["three"] = [UNIT["e01"], UNIT["sz"], cx]
    lists["six"] = six
    # exactly diagonal operators with complex entries (a shortcut for diagonal jumps must conjugate the right-hand factor)
    lists["diag_complex"] = [[[1, 0], [0, 1j]]]
    lists["diag_two"] = [[[0.7 + 0.2j, 0], [0, -0.3 + 0.9j]], [[0, 0], [0, 1j]]]
    return lists


def _c(m):
    return [[complex(x) for x in row] for row in m]


def bounds(tier, seed):
    return {
        "N_hamiltonian": [1, 2, 3, 4] if tier == "quick" else [1, 2, 3, 4, 5, 6],
        "N_lindbladian": [1, 2, 3] if tier == "quick" else [1, 2, 3, 4],
        "omega_patterns": ["distinct", "with_zero", "all_zero"],
        "phase_patterns": ["all_zero", "one_nonzero", "all_nonzero", "mixed_with_exact_zero", "zero_and_pi", "all_pi"],
        "interaction_patterns": "all 2^(N(N-1)/2) (N<=4), N=5,6: 0, full, and the N single-pair patterns' complement",
        "jump_lists": list(_jump_lists(seed)),
    }


def _patterns(n, tier):
    npairs = n * (n - 1) // 2
    if n <= 4:
        return list(range(2**npairs))
    full = 2**npairs - 1
    return [0, full] + [full ^ (1 << k) for k in range(0, npairs, 3)] + [1 << k for k in range(0, npairs, 4)]


def cases(tier, seed):
    b = bounds(tier, seed)
    for n in b["N_hamiltonian"]:
        for om, ph in itertools.product(b["omega_patterns"], b["phase_patterns"]):
            for pat in _patterns(n, tier):
                yield {"op": "H", "N": n, "omega": om, "phase": ph, "pattern": pat, "seed": seed}
    for n in b["N_lindbladian"]:
        for om, ph in itertools.product(["distinct", "with_zero"], b["phase_patterns"]):
            for pat in _patterns(n, tier) if n <= 3 else [0, 2 ** (n * (n - 1) // 2) - 1, 0b010101]:
                for jl in b["jump_lists"]:
                    yield {"op": "L", "N": n, "omega": om, "phase": ph, "pattern": pat, "jumps": jl, "seed": seed}
    # the whole problem at a tiny scale (all drive values and couplings x 1e-9): the maps are linear, an absolute threshold anywhere shows
    for kind in ("H", "L"):
        for n in (2, 3):
            for pat in (2 ** (n * (n - 1) // 2) - 1, 1):
                yield {"op": kind, "N": n, "omega": "distinct", "phase": "all_nonzero", "pattern": pat, "seed": seed, "tiny": 1e-9, **({"jumps": "none"} if kind == "L" else {})}
    # histories: operators built one after the other from the SAME tensor objects, which the caller changes in place in between
    for kind in ("H", "L"):
        for n in (2, 3):
            for depth in (1, 2) if tier == "quick" else (1, 2, 3):
                for hist in itertools.product(HIST_OPS, repeat=depth):
                    yield {"op": "history", "kind": kind, "N": n, "hist": list(hist), "omega": "distinct", "phase": "all_nonzero", "pattern": 2 ** (n * (n - 1) // 2) - 1, "seed": seed}
    for k, m in itertools.product(range(0, 7 if tier == "quick" else 9), [1, 2, 3, 8, 64]):
        yield {"op": "matmul", "k": k, "m": m, "seed": seed}


HIST_OPS = ["U", "delta", "omega", "phi", "jump"]


def _history_case(case):
    """Build, change one input tensor in place, build again ...: every operator must represent the values its inputs held when it was built."""
    from emu_sv.hamiltonian import RydbergHamiltonian
    from emu_sv.lindblad_operator import RydbergLindbladian

    n = case["N"]
    om, de, ph, U = _params(case)
    t = {"omega": _t(om), "delta": _t(de), "phi": _t(ph), "U": _t(U, torch.float64), "jump": _t(_c([[0.3, 0.8], [0.1j, -0.5]]))}
    d = 2**n
    dev = torch.device("cpu")
    r = np.random.RandomState(case["seed"] + 13 * n)
    v = r.normal(size=d) + 1j * r.normal(size=d)
    g = r.normal(size=(d, d)) + 1j * r.normal(size=(d, d))
    rho = g + g.conj().T
    napp = 0
    for step, change in enumerate([None] + case["hist"]):
        if change == "U":
            t["U"][0, 1] += 1.7
            t["U"][1, 0] += 1.7
        elif change == "delta":
            t["delta"][0] -= 2.1
        elif change == "omega":
            t["omega"][n - 1] *= 0.5
        elif change == "phi":
            t["phi"][0] += 0.9
        elif change == "jump":
            t["jump"][1, 1] *= 1j
        Href = dense_hamiltonian(t["omega"].real.tolist(), t["delta"].real.tolist(), t["phi"].real.tolist(), t["U"].numpy())
        scale = max(1.0, np.abs(Href).max())
        if case["kind"] == "H":
            H = RydbergHamiltonian(omegas=t["omega"], deltas=t["delta"], phis=t["phi"], interaction_matrix=t["U"], device=dev)
            err = np.abs((H * _t(v)).numpy() - Href @ v).max() / scale
        else:
            L = RydbergLindbladian(omegas=t["omega"], deltas=t["delta"], phis=t["phi"], pulser_lindblads=[t["jump"]], interaction_matrix=t["U"], device=dev)
            emb = [embed(t["jump"].numpy(), q, n, 2) for q in range(n)]
            ref = -1j * (Href @ rho - rho @ Href)
            for c in emb:
                cd = c.conj().T
                ref = ref + c @ rho @ cd - 0.5 * (cd @ c @ rho + rho @ cd @ c)
            err = np.abs(-1j * (L @ _t(rho)).numpy() - ref).max() / scale
        napp += 1
        if not err <= 1e-12:  # NaN fails
            return result(
                False,
                sig=f"history|{case['kind']}|after={change}",
                msg=f"operator number {step + 1} of the history {case['hist']} (inputs changed in place between constructions) differs from the dense reference of its own inputs by {err:.2e}; N={n}",
                outcome="viol",
            )
    return result(True, outcome=["history", case["kind"], n, len(case["hist"])], transitions=napp, nontrivial=True)


def _params(case):
    n, seed = case["N"], case["seed"]
    vals = seeded_values(seed, 3 * n + n * (n - 1) // 2 + 2, 0.3, 3.0)
    om = vals[:n]
    de = [v * (-1) ** k for k, v in enumerate(vals[n : 2 * n])]
    if case["omega"] == "with_zero":
        om = [0.0 if k % 2 == 0 else v for k, v in enumerate(om)]
        de = [0.0 if k % 2 == 1 else v for k, v in enumerate(de)]
    elif case["omega"] == "all_zero":
        om = [0.0] * n
    phv = [v - 1.6 for v in vals[2 * n : 3 * n]]
    ph = {
        "all_zero": [0.0] * n,
        "one_nonzero": [0.0] * (n - 1) + [phv[-1]],
        "all_nonzero": phv,
        "mixed_with_exact_zero": [0.0 if k % 2 == 0 else v for k, v in enumerate(phv)],
        "zero_and_pi": [float(np.pi) if k % 2 == 0 else 0.0 for k in range(n)],  # sin(phi) = 0 everywhere, cos(phi) = -1 on some atoms
        "all_pi": [float(np.pi)] * n,
    }[case["phase"]]
    U = np.zeros((n, n))
    uv = vals[3 * n :]
    for k, (i, j) in enumerate(itertools.combinations(range(n), 2)):
        if case["pattern"] >> k & 1:
            U[i, j] = U[j, i] = uv[k] * (-1) ** k
    return om, de, ph, U


class NotCpu(torch.Tensor):
    """A CPU tensor that claims not to be one, so that the real code takes its batched branch."""

    @property
    def is_cpu(self):  # type: ignore[override]
        return False


def _t(x, dtype=torch.complex128):
    return torch.tensor(np.asarray(x), dtype=dtype)


def run_case(case):
    from emu_base.math.matmul import matmul_2x2_with_batched

    if case["op"] == "matmul":
        r = np.random.RandomState(case["seed"] + 100 * case["k"] + case["m"])
        left = r.normal(size=(2, 2)) + 1j * r.normal(size=(2, 2))
        right = r.normal(size=(2 ** case["k"], 2, case["m"])) + 1j * r.normal(size=(2 ** case["k"], 2, case["m"]))
        got = matmul_2x2_with_batched(_t(left), _t(right)).numpy()
        ref = np.einsum("ab,kbm->kam", left, right)
        err = np.abs(got - ref).max()
        if not err <= 1e-12:  # NaN fails
            return result(False, sig="matmul_2x2_with_batched", msg=f"batched 2x2 matmul differs from left@right by {err:.2e} for shape {right.shape}", outcome="viol")
        return result(True, outcome=["matmul", case["k"], case["m"]])

    if case["op"] == "history":
        return _history_case(case)

    from emu_sv.hamiltonian import RydbergHamiltonian
    from emu_sv.lindblad_operator import RydbergLindbladian

    n = case["N"]
    om, de, ph, U = _params(case)
    if case.get("tiny"):
        om, de, U = [x * case["tiny"] for x in om], [x * case["tiny"] for x in de], U * case["tiny"]
    Href = dense_hamiltonian(om, de, ph, U)
    d = 2**n
    dev = torch.device("cpu")
    nontrivial = any(om) or bool(U.any())
    if case["op"] == "H":
        H = RydbergHamiltonian(omegas=_t(om), deltas=_t(de), phis=_t(ph), interaction_matrix=_t(U, torch.float64), device=dev)
        r = np.random.RandomState(case["seed"] + n)
        vecs = [np.eye(d, dtype=complex)[k] for k in range(d)] + [r.normal(size=d) + 1j * r.normal(size=d)]
        scale = max(1.0, np.abs(Href).max()) if not case.get("tiny") else np.abs(Href).max()
        for k, v in enumerate(vecs):
            got = (H * _t(v)).numpy()
            err = np.abs(got - Href @ v).max() / scale
            if not err <= 1e-12:  # NaN fails
                return result(
                    False,
                    sig=f"H|phase={case['phase']}|omega={case['omega']}",
                    msg=f"H*v differs from dense H@v by {err:.2e} on {'basis vector %d' % k if k < d else 'seeded vector'}; N={n} omega={om} delta={de} phi={ph} U={U.tolist()}",
                    outcome="viol",
                )
        # expect() on a normalised seeded state
        from emu_sv.state_vector import StateVector

        psi = vecs[-1] / np.linalg.norm(vecs[-1])
        e = float(H.expect(StateVector(_t(psi), gpu=False)))
        eref = np.vdot(psi, Href @ psi).real
        if not abs(e - eref) <= 1e-11 * scale:  # NaN fails
            return result(False, sig="H.expect", msg=f"expect {e} != {eref}; N={n}", outcome="viol")
        return result(True, outcome=["H", n, case["omega"], case["phase"], bin(case["pattern"]).count("1")], transitions=len(vecs) + 1, nontrivial=nontrivial)

    jumps = _jump_lists(case["seed"])[case["jumps"]]
    Ls = [_t(_c(j)) for j in jumps]
    L = RydbergLindbladian(omegas=_t(om), deltas=_t(de), phis=_t(ph), pulser_lindblads=Ls, interaction_matrix=_t(U, torch.float64), device=dev)
    emb = [embed(np.array(_c(j)), q, n, 2) for q in range(n) for j in jumps]

    def gen(rho):
        out = -1j * (Href @ rho - rho @ Href)
        for c in emb:
            cd = c.conj().T
            out = out + c @ rho @ cd - 0.5 * (cd @ c @ rho + rho @ cd @ c)
        return out

    basis = []
    for i in range(d):
        for j in range(i, d):
            e = np.zeros((d, d), dtype=complex)
            e[i, j] = e[j, i] = 1
            basis.append(e)
            if i != j:
                f = np.zeros((d, d), dtype=complex)
                f[i, j] = 1j
                f[j, i] = -1j
                basis.append(f)
    r = np.random.RandomState(case["seed"] + 7 * n)
    g = r.normal(size=(d, d)) + 1j * r.normal(size=(d, d))
    basis.append(g + g.conj().T)
    scale = max(1.0, np.abs(Href).max(), max([np.abs(c).max() ** 2 for c in emb] or [0])) if not case.get("tiny") else np.abs(Href).max()
    for k, rho in enumerate(basis):
        got_cpu = (L @ _t(rho)).numpy()
        ref = gen(rho)
        err = np.abs(-1j * got_cpu - ref).max() / scale
        if not err <= 1e-12:  # NaN fails
            return result(
                False,
                sig=f"L|jumps={case['jumps']}|phase={case['phase']}",
                msg=f"-i(Lindbladian@rho) differs from the dense Lindblad generator by {err:.2e} on Hermitian basis element {k}; N={n} omega={om} delta={de} phi={ph} U={U.tolist()} jumps={case['jumps']}",
                outcome="viol",
            )
        got_b = (L @ _t(rho).as_subclass(NotCpu)).as_subclass(torch.Tensor).numpy()
        errb = np.abs(got_b - got_cpu).max() / scale
        if errb > 1e-12:
            return result(False, sig="L|batched-path", msg=f"batched (GPU) path differs from the CPU path by {errb:.2e}; N={n} jumps={case['jumps']} element {k}", outcome="viol")
    return result(True, outcome=["L", n, case["omega"], case["phase"], case["jumps"], bin(case["pattern"]).count("1")], transitions=2 * len(basis), nontrivial=True)
