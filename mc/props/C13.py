"""
C13 - every reported observable equals its definition on the current state.

E1: complete product representation {state vector, density matrix, MPS dim 2, MPS dim 3, MPS padded with dark atoms} x state
alphabet (basis states, product superposition, GHZ, W, seeded generic; each scaled by {1, 0.5, 2}; MPS also non-canonical) x
Hamiltonian parameters x evaluation time {0 (the enumerated state itself), 1 (evolved)} with EVERY built-in observable
requested from the real backend: occupation, correlation matrix, energy, second moment, variance, fidelity, expectation,
entanglement entropy (every bond).  Dark atoms: all bad-atom masks leaving >= 2 good atoms.
Oracle: the dense definitions on the normalised reference state and the dense Hamiltonian of that time; physical ranges.
"""
import contextlib
import io
import itertools
import logging

import numpy as np

from mc import pulser_kit as kit
from mc import runner, seams
from mc.core import result, rnd
from mc.ref import pulser_ref as R
from mc.ref.dense_ham import embed

ID = "C13"
LEVEL = "model_checking"
ENGINE = "E1 small-scope product explorer over (representation, state alphabet, scale, Hamiltonian parameters, time, dark-atom mask)"
RULE = (
    "case = one (representation, register, drive, state, scale / mask) point; one real backend run with all observables at t in "
    "{0, 1}; every reported value is compared with its dense definition; states = distinct cases; non-trivial = state is not a basis state"
)
ASSUMPTIONS = [
    "the backend is responsible for normalising a user-supplied initial state (emu-mps does; emu-sv since the C13 fix)",
    "energy observables at time t use the Hamiltonian of the step that just ended (step 0 at t=0)",
    "dim-3 runs use a leakage noise model with rate 1e-9 and the scripted no-jump trajectory (non-Hermitian drift < 1e-9)",
    "the Expectation observable is not requested in density-matrix runs: emu-sv refuses it there with an explicit assertion (a refusal, not a reported value)",
    "dark atoms are in |g>, carry no drive and no interaction (reference = reduced register tensor |g> at the bad positions)",
]
CHUNK = 1

STATES = ["product:", "sup", "ghz", "w", "seeded"]
DRIVES = {
    "const": {"pulses": [{"amp": ["const", 40, 6.0], "det": ["const", 40, 2.0], "phase": 0.6}]},
    "dmm": {"pulses": [{"amp": ["const", 40, 5.0], "det": ["const", 40, -1.0], "phase": 0.0}], "dmm": {"weights": [1.0, 0.3, 0.6, 0.1], "wfs": [["const", 40, -7.0]]}},
}


def bounds(tier, seed):
    return {
        "representations": ["sv", "dm", "mps", "mps3 (leakage)", "mps_dark (SPAM)"],
        "registers": ["pair", "bent3"] + (["zig4"] if tier == "thorough" else []),
        "states": STATES,
        "scales": [1.0, 0.5, 2.0],
        "drives": list(DRIVES),
        "times": [0.0, 1.0],
        "dark_masks": "all masks with >= 2 good atoms (N=3; N=4 as well in both tiers)",
    }


PADDED = ["ghz", "w", "product", "bell_pairs"]


def _padded_factors(kind, n, dim, pad):
    """exact MPS of a named state on n sites, every inner bond widened by `pad` unused (all-zero) channels"""
    import torch

    def t(a):
        return torch.tensor(a, dtype=torch.complex128)

    if kind == "product":
        base = [np.zeros((1, dim, 1), dtype=complex) for _ in range(n)]
        for k, b in enumerate(base):
            b[0, 0, 0], b[0, 1, 0] = (0.6, 0.8j) if k % 2 == 0 else (1.0, 0.0)
    elif kind == "ghz":
        base = []
        for k in range(n):
            a = np.zeros((1 if k == 0 else 2, dim, 1 if k == n - 1 else 2), dtype=complex)
            for s_ in (0, 1):
                a[0 if k == 0 else s_, s_, 0 if k == n - 1 else s_] = (2**-0.5 if k == 0 else 1.0)
            base.append(a)
    elif kind == "w":
        base = []
        for k in range(n):
            a = np.zeros((1 if k == 0 else 2, dim, 1 if k == n - 1 else 2), dtype=complex)
            # channel 0: no excitation so far, channel 1: one excitation placed
            L0, R0, R1 = 0, 0, (0 if k == n - 1 else 1)
            if k == 0:
                a[0, 0, 0 if n == 1 else 0] = 1.0
                a[0, 1, R1] = 1.0
            elif k == n - 1:
                a[0, 1, 0] = 1.0  # still none placed: place it here
                a[1, 0, 0] = 1.0  # already placed
            else:
                a[0, 0, 0] = 1.0
                a[0, 1, 1] = 1.0
                a[1, 0, 1] = 1.0
            base.append(a)
        base[0] = base[0] / np.sqrt(n)
    else:  # Bell pairs on (0,1), (2,3), ...: zero entanglement across every second bond
        base = []
        for k in range(n):
            if k % 2 == 0 and k + 1 < n:
                a = np.zeros((1, dim, 2), dtype=complex)
                a[0, 0, 0] = a[0, 1, 1] = 2**-0.5
            elif k % 2 == 1:
                a = np.zeros((2, dim, 1), dtype=complex)
                a[0, 0, 0] = a[1, 1, 0] = 1.0
            else:
                a = np.zeros((1, dim, 1), dtype=complex)
                a[0, 0, 0] = 1.0
            base.append(a)
    out = []
    for k, a in enumerate(base):
        l, _, r = a.shape
        lp = 0 if k == 0 else pad
        rp = 0 if k == n - 1 else pad
        b = np.zeros((l + lp, dim, r + rp), dtype=complex)
        b[:l, :, :r] = a
        out.append(t(b))
    return out


def _direct_case(case):
    """observable methods called directly on an MPS given by its factors (no backend run in between): the singular spectrum at a cut may
    contain exact zeros (unused bond channels), which no state produced by a run ever has"""
    import torch
    import emu_mps as m
    from mc.ref.mps_dense import mps_to_vec

    n, dim, kind, pad = case["n"], case["dim"], case["state"], case["pad"]
    eig = ("r", "g") if dim == 2 else ("r", "g", "x")
    cnt = 0
    for cut in range(n - 1):
        f = _padded_factors(kind, n, dim, pad)
        vec = mps_to_vec(f)
        vec = vec / np.linalg.norm(vec)
        mps = m.MPS(f, eigenstates=eig, num_gpus_to_use=0)
        got = complex(mps.entanglement_entropy(cut))
        sv_ = np.linalg.svd(vec.reshape(dim ** (cut + 1), -1), compute_uv=False)
        p = sv_[sv_ > 1e-150] ** 2
        ref = float(-(p * np.log(p)).sum())
        cnt += 1
        if not np.isfinite(got.real) or abs(got - ref) > 1e-9 or not (-1e-12 <= got.real <= np.log(dim) * min(cut + 1, n - cut - 1) + 1e-9):
            return result(False, sig=f"direct|entanglement_entropy|{'nonfinite' if not np.isfinite(got.real) else 'value'}", msg=f"{kind} state on {n} sites (dim {dim}) written with {pad} unused bond channel(s): entanglement entropy at bond {cut} is {got}, definition gives {ref}", outcome="viol")
        # the state itself must still be the same vector afterwards
        after = mps_to_vec(mps.factors)
        if not abs(abs(np.vdot(after, vec)) - np.linalg.norm(after)) <= 1e-9 * np.linalg.norm(after):  # NaN fails
            return result(False, sig="direct|entanglement_entropy|state-changed", msg=f"{kind} on {n} sites: the state changed direction while its entropy was computed", outcome="viol")
    return result(True, outcome=["direct", kind, n, dim, pad], states=cnt, transitions=cnt, nontrivial=kind != "product")


def cases(tier, seed):
    for n in (2, 3, 4) + ((5,) if tier == "thorough" else ()):
        for dim in (2, 3):
            for kind in PADDED:
                for pad in (0, 1, 2):
                    yield {"family": "direct", "n": n, "dim": dim, "state": kind, "pad": pad}
    shapes = ["pair", "bent3"] + (["zig4"] if tier == "thorough" else [])
    for rep in ("sv", "dm", "mps", "mps3"):
        for shape in shapes:
            for drive in DRIVES:
                for st in STATES:
                    for scale in (1.0, 0.5, 2.0):
                        if rep == "mps3" and scale != 1.0 and st != "seeded":
                            continue
                        for canon in ((True, False) if rep in ("mps", "mps3") and st in ("seeded", "ghz") and scale == 1.0 else (True,)):
                            yield {"rep": rep, "shape": shape, "drive": drive, "state": st, "scale": scale, "canonical": canon, "seed": seed}
                        if rep == "mps" and scale == 1.0 and st in ("seeded", "w"):
                            # observables listed in reverse order (an observable may leave the shared state re-centred for the next one)
                            yield {"rep": rep, "shape": shape, "drive": drive, "state": st, "scale": scale, "canonical": True, "seed": seed, "reverse": True}
                            # a bond cap / coarse precision that the state itself never reaches (N<=3: bond dimension <= 2): nothing may change
                            if len(kit.SHAPES[shape]) <= 3:
                                yield {"rep": rep, "shape": shape, "drive": drive, "state": st, "scale": scale, "canonical": True, "seed": seed, "cap": 2}
    for shape in ("bent3", "zig4"):
        n = len(kit.SHAPES[shape])
        for mask in itertools.product((0, 1), repeat=n):
            if n - sum(mask) < 2:
                continue
            for drive in DRIVES:
                yield {"rep": "mps_dark", "shape": shape, "drive": drive, "mask": list(mask), "seed": seed}


def _vec(n, kind, seed, dim):
    d = dim**n
    v = np.zeros(d, dtype=complex)
    if kind == "product:":
        digits = ("10" * n)[:n]
        v[int(digits, dim)] = 1
    elif kind == "sup":
        one = np.array([np.cos(0.4), np.exp(0.9j) * np.sin(0.4)] + [0] * (dim - 2))
        v = one
        for _ in range(n - 1):
            v = np.kron(v, one)
    elif kind == "ghz":
        v[0] = 1 / np.sqrt(2)
        v[int("1" * n, dim)] = 1j / np.sqrt(2)
    elif kind == "w":
        for k in range(n):
            v[dim ** (n - 1 - k)] = 1 / np.sqrt(n)
    else:
        r = np.random.RandomState(1234 + seed + 7 * n + dim)
        v = r.normal(size=d) + 1j * r.normal(size=d)
        v /= np.linalg.norm(v)
    return v


def _amps(v, n, dim, letters):
    amps = {}
    for idx, a in enumerate(v):
        if not abs(a) <= 0:  # NaN fails
            digits = np.base_repr(idx, dim).zfill(n)
            amps["".join(letters[int(c)] for c in digits)] = complex(a)
    return amps


def definitions(state, H, n, dim, target, O):
    """dense definitions on a normalised state (vector or density matrix)"""
    e = R.expect(state, H).real
    e2 = R.expect(state, H @ H).real
    if state.ndim == 1:
        fid = abs(np.vdot(target, state)) ** 2
    else:
        fid = np.real(np.vdot(target, state @ target))
    out = {
        "occupation": R.occupation(state, n, dim),
        "correlation_matrix": R.correlation(state, n, dim),
        "energy": e,
        "energy_second_moment": e2,
        "energy_variance": e2 - e**2,
        "fidelity": fid,
        "expectation": R.expect(state, O),
    }
    return out


def entropy_dense(v, n, dim, b):
    m = v.reshape(dim ** (b + 1), -1)
    s = np.linalg.svd(m, compute_uv=False)
    p = s**2
    p = p[p > 1e-300]
    return float(-(p * np.log(p)).sum())


def _op_dense(n, dim):
    n_op = np.zeros((dim, dim), dtype=complex)
    n_op[1, 1] = 1
    x_op = np.zeros((dim, dim), dtype=complex)
    x_op[0, 1] = x_op[1, 0] = 1
    return 0.7 * embed(n_op, 0, n, dim) @ embed(x_op, 1, n, dim) + 0.3j * embed(x_op, 0, n, dim)


def _op_repr():
    return [(0.7, [({"rr": 1.0}, {0}), ({"gr": 1.0, "rg": 1.0}, {1})]), (0.3j, [({"gr": 1.0, "rg": 1.0}, {0})])]


def run_case(case):
    import pulser
    import torch
    import emu_mps as m
    import emu_sv as sv
    import emu_mps.mps_backend_impl as impl_mod

    if case.get("family") == "direct":
        return _direct_case(case)
    rep = case["rep"]
    shape = case["shape"]
    coords = kit.SHAPES[shape]
    n = len(coords)
    dim = 3 if rep == "mps3" else 2
    d = DRIVES[case["drive"]]
    spec = {"coords": coords, "device": "mock", "basis": "rydberg", "pulses": d["pulses"]}
    if "dmm" in d:
        spec["dmm"] = dict(d["dmm"], weights=d["dmm"]["weights"][:n])
    seq = kit.build_sequence(spec)
    ev = [0.0, 1.0]
    label = " ".join(f"{k}={v}" for k, v in case.items() if k != "seed")
    mod = sv if rep in ("sv", "dm") else m
    eig = ("r", "g", "x") if dim == 3 else ("r", "g")
    letters = "grx"[:dim]
    tvec = _vec(n, "sup", 0, dim)
    Od = _op_dense(n, dim)
    mask = case.get("mask")
    # ---- the enumerated state -------------------------------------------------------------
    psi0 = None
    kw = {}
    noise = None
    Ls = None
    if rep != "mps_dark":
        psi0 = _vec(n, case["state"], case["seed"], dim)
        scaled = case["scale"] * psi0
        if rep == "sv":
            kw["initial_state"] = sv.StateVector(torch.tensor(scaled, dtype=torch.complex128), gpu=False)
        elif rep == "dm":
            rho = np.outer(scaled, scaled.conj())
            if case["state"] == "seeded":  # genuinely mixed
                w = _vec(n, "w", 0, 2)
                rho = 0.6 * rho + 0.4 * case["scale"] ** 2 * np.outer(w, w.conj())
            kw["initial_state"] = sv.DensityMatrix(torch.tensor(rho, dtype=torch.complex128), gpu=False)
            noise = pulser.NoiseModel(relaxation_rate=0.05)
        else:
            st = m.MPS.from_state_amplitudes(eigenstates=eig, amplitudes=_amps(psi0, n, dim, letters))
            if not case["canonical"]:
                # same state, gauge destroyed: insert X X^-1 on every bond, declare no orthogonality centre
                fs = [f.clone() for f in st.factors]
                rs = np.random.RandomState(5)
                for b in range(n - 1):
                    chi = fs[b].shape[2]
                    X = torch.tensor(rs.normal(size=(chi, chi)) + 1j * rs.normal(size=(chi, chi)) + 2 * np.eye(chi), dtype=torch.complex128)
                    fs[b] = torch.tensordot(fs[b], X, dims=1)
                    fs[b + 1] = torch.tensordot(torch.linalg.inv(X), fs[b + 1], dims=1)
                st = m.MPS(fs, orthogonality_center=None, eigenstates=eig, num_gpus_to_use=0)
            if case["scale"] != 1.0:
                st = case["scale"] * st
            kw["initial_state"] = st
            if dim == 3:
                op = np.zeros((3, 3), dtype=complex)
                op[2, 2] = 1
                noise = pulser.NoiseModel(with_leakage=True, eff_noise_opers=[op], eff_noise_rates=[1e-9])
    else:
        noise = pulser.NoiseModel(state_prep_error=0.3, p_false_pos=0.0, p_false_neg=0.0)
    # ---- observables ----------------------------------------------------------------------
    if rep in ("sv", "dm"):
        tcls = sv.DensityMatrix if rep == "dm" else sv.StateVector  # a fidelity target has the backend's state type
        target = tcls.from_state_amplitudes(eigenstates=("r", "g"), amplitudes=_amps(tvec, n, 2, "gr"))
        oper = sv.DenseOperator.from_operator_repr(eigenstates=("r", "g"), n_qudits=n, operations=_op_repr())
    else:
        target = m.MPS.from_state_amplitudes(eigenstates=eig, amplitudes=_amps(tvec, n, dim, letters))
        oper = m.MPO.from_operator_repr(eigenstates=eig, n_qudits=n, operations=_op_repr())
    obs = [
        mod.Occupation(evaluation_times=ev),
        mod.CorrelationMatrix(evaluation_times=ev),
        mod.Energy(evaluation_times=ev),
        mod.EnergySecondMoment(evaluation_times=ev),
        mod.EnergyVariance(evaluation_times=ev),
        mod.Fidelity(state=target, evaluation_times=ev),
    ]
    if rep != "dm":  # emu-sv refuses Expectation on density matrices ("Only expectation values of StateVectors are supported")
        obs.append(mod.Expectation(oper, evaluation_times=ev))
    bonds = list(range(n - 1))
    if mod is m:
        for b in bonds:
            obs.append(m.EntanglementEntropy(mps_site=b, evaluation_times=ev, tag_suffix=f"b{b}"))
    if case.get("reverse"):
        obs = obs[::-1]
    try:
        with contextlib.redirect_stdout(io.StringIO()):
            if mod is sv:
                cfg = sv.SVConfig(dt=10, krylov_tolerance=1e-10, observables=obs, log_level=logging.CRITICAL, gpu=False, **({"noise_model": noise} if noise else {}), **kw)
                res = sv.SVBackend(seq, config=cfg).run()
            else:
                capkw = {"max_bond_dim": case["cap"]} if case.get("cap") else {}
                cfg = m.MPSConfig(dt=10, precision=1e-10, observables=obs, log_level=logging.CRITICAL, num_gpus_to_use=0, optimize_qubit_ordering=False, **({"noise_model": noise} if noise else {}), **capkw, **kw)
                script = {"uniform": [seams.bad_mask_uniform(mask)]} if mask else {}
                with seams.pulser_np_random(**script), seams.module_random(impl_mod, seams.ScriptedRandom(default_uniform=0.5, default_choice=0)):
                    res = m.MPSBackend(seq, config=cfg).run()
    except Exception as e:
        return result(False, sig=f"raises|{rep}|{type(e).__name__}", msg=f"{label}: {type(e).__name__}: {str(e)[:300]}", outcome="raise")
    # ---- reference ------------------------------------------------------------------------
    cfgd = {"dt": 10, "eval": ev}
    if rep == "mps_dark":
        keep = [i for i, b in enumerate(mask) if not b]
        rspec = dict(spec, coords=[coords[i] for i in keep])
        if "dmm" in rspec:
            rspec["dmm"] = dict(rspec["dmm"], weights=[spec["dmm"]["weights"][i] for i in keep])
        small = runner.Ref(rspec, cfgd, slm_rule="mid")
        g = np.array([1.0, 0.0], dtype=complex)

        def lift_state(v):
            t = v.reshape([2] * len(keep))
            full = np.zeros([2] * n, dtype=complex)
            idx = tuple(slice(None) if i in keep else 0 for i in range(n))
            full[idx] = t
            return full.reshape(-1)

        def lift_H(Hs):
            # H_small acting on the kept atoms, identity elsewhere; bad atoms are in |g> and feel no drive / interaction
            H = np.zeros((2**n, 2**n), dtype=complex)
            perm = keep + [i for i in range(n) if i not in keep]
            big = np.kron(Hs, np.eye(2 ** (n - len(keep))))
            T = big.reshape([2] * (2 * n))
            inv = np.argsort(perm)
            T = T.transpose(list(inv) + [n + i for i in inv])
            return T.reshape(2**n, 2**n)

        states = {t: lift_state(small.states[small.index_of(t)]) for t in ev}
        Hs = {t: lift_H(small.H_at(small.index_of(t))) for t in ev}
    else:
        rho0 = None
        if rep == "dm":
            r0 = runner.to_np(kw["initial_state"].data)
            rho0 = r0 / np.trace(r0).real
            Lop = np.zeros((2, 2), dtype=complex)
            Lop[0, 1] = np.sqrt(0.05)
            Ls = R.embed_all([Lop], n, 2)
        ref = runner.Ref(spec, cfgd, slm_rule="mid", Ls=Ls, rho0=rho0, dim=dim)
        if rho0 is None:
            # replace the default |g..g> start by the enumerated state
            ref.states = R.propagate_sv(psi0 / np.linalg.norm(psi0), ref.Hs, ref.times)
        states = {t: ref.states[ref.index_of(t)] for t in ev}
        Hs = {t: ref.H_at(ref.index_of(t)) for t in ev}
    tol = 2e-8 if rep in ("sv", "dm") else (1e-6 if n <= 3 else 5e-5)
    if rep == "mps3":
        tol = max(tol, 1e-6)
    Hn = max(1.0, max(np.linalg.norm(H, 2) for H in Hs.values()))
    for t in ev:
        s = states[t]
        dd = definitions(s, Hs[t], n, dim, tvec, Od)
        for tag, exp in dd.items():
            if tag == "expectation" and rep == "dm":
                continue
            try:
                got = runner.to_np(runner.get_at(res, tag, t))
            except Exception as e:
                return result(False, sig=f"missing|{rep}|{tag}", msg=f"{label}: {tag} not reported at t={t}: {e}", outcome="missing")
            scale = Hn ** (2 if tag in ("energy_second_moment", "energy_variance") else (1 if tag == "energy" else 0))
            err = np.abs(np.asarray(got, dtype=complex) - np.asarray(exp, dtype=complex)).max() / scale
            if not err <= tol:
                return result(False, sig=f"value|{rep}|{tag}|t={int(t)}", msg=f"{label}: {tag} at t={t} is {np.round(got, 7).tolist()} but the definition gives {np.round(exp, 7).tolist()} (err {err:.2e} > {tol:.0e})", outcome="value")
            g = np.real(np.asarray(got, dtype=complex))
            if tag in ("occupation", "correlation_matrix", "fidelity") and (g.min() < -1e-9 or g.max() > 1 + 1e-9):
                return result(False, sig=f"range|{rep}|{tag}", msg=f"{label}: {tag} at t={t} out of [0,1]: {g.tolist()}", outcome="range")
            if tag == "energy_variance" and g.min() < -1e-7 * Hn**2:
                return result(False, sig=f"range|{rep}|variance", msg=f"{label}: negative variance {g}", outcome="range")
        if mod is m:
            for b in bonds:
                got = float(runner.to_np(runner.get_at(res, f"entanglement_entropy_b{b}", t)))
                exp = entropy_dense(s, n, dim, b)
                cap = np.log(dim) * min(b + 1, n - b - 1)
                if abs(got - exp) > max(tol * 50, 1e-6) or got < -1e-9 or got > cap + 1e-6:
                    return result(False, sig=f"value|{rep}|entanglement_entropy|t={int(t)}", msg=f"{label}: entanglement entropy at bond {b}, t={t}: {got} but the definition gives {exp} (allowed range [0, {cap}])", outcome="entropy")
    return result(True, outcome=["ok", rnd(definitions(states[1.0], Hs[1.0], n, dim, tvec, Od)["occupation"], 4)], nontrivial=case.get("state") != "product:")
