"""
C24 - noise-model channels act on the intended atomic levels.

E1: complete product noise type(s) x rate x basis {ising, ising+leakage, XY, XY+leakage} with effective-noise operators
running over EVERY matrix unit E_ij of the 2x2 / 3x3 space (alone and in ordered pairs with distinct rates), Pauli-type
combinations and a seeded complex matrix.  The jump operators are read from the SequenceData the real adapter hands to the
solvers.  Oracle: Pulser's own HamiltonianData.lindblad_data.local_collapse_ops, turned into matrices in Pulser's eigenbasis,
permuted to the emulator's level order (g,r[,x]) resp. (u,d[,x]); both sides are compared as the *dissipator superoperator*
sum_k D[L_k], so equal physical processes written differently are accepted and wrong levels / wrong rate powers are not.
"""
import itertools
import logging

import numpy as np

from mc import pulser_kit as kit
from mc.core import result, rnd

ID = "C24"
LEVEL = "model_checking"
ENGINE = "E1 small-scope product explorer over (noise types, rates, basis, effective-noise operator alphabet)"
RULE = (
    "case = (basis, noise family); inside: every member of the family (all matrix units, all ordered pairs, all rates, all "
    "subsets of noise types); states = distinct noise models; non-trivial = Pulser's dissipator is non-zero"
)
ASSUMPTIONS = [
    "Pulser's definition = HamiltonianData.lindblad_data (pulser-core), sigma_ab = |a><b| in the eigenbasis order Pulser reports",
    "emulator level order: index 0 = g, 1 = r, 2 = x (ising); 0 = u, 1 = d, 2 = x (XY; Pulser measures d as 1)",
    "two operator sets are the same physical process iff their dissipator superoperators agree",
]
CHUNK = 1
RATES = [0.1, 0.5, 2.0]
BASES = ["ising", "ising_leak", "xy", "xy_leak"]


def bounds(tier, seed):
    return {"bases": BASES, "rates": RATES, "families": ["types (all subsets)", "units (every E_ij)", "unit pairs (all ordered pairs)", "pauli", "seeded"]}


def cases(tier, seed):
    for b in BASES:
        for fam in ("types", "units", "pairs", "pauli", "seeded"):
            c = {"basis": b, "family": fam, "seed": seed}
            for k in range(len(_models(c)[0])):
                yield dict(c, index=k)


def _dissipator(ops, d):
    I = np.eye(d)
    S = np.zeros((d * d, d * d), dtype=complex)
    for L in ops:
        L = np.asarray(L, dtype=complex)
        LdL = L.conj().T @ L
        S += np.kron(L, L.conj()) - 0.5 * np.kron(LdL, I) - 0.5 * np.kron(I, LdL.T)
    return S


def _pulser_ops(hd, d):
    """Pulser's collapse operators as matrices in Pulser's eigenbasis order."""
    eig = list(hd.basis_data.eigenbasis)
    ld = hd.lindblad_data

    def sigma(name):
        a, b = name[len("sigma_")], name[len("sigma_") + 1]
        m = np.zeros((d, d), dtype=complex)
        m[eig.index(a), eig.index(b)] = 1
        return m

    out = []
    tags = []
    for coeff, op in ld.local_collapse_ops:
        if isinstance(op, str):
            if op.startswith("sigma_"):
                m = sigma(op)
                tags.append("dephasing" if op[-1] == op[-2] else "relaxation")
            else:
                m = sum(c * sigma(n) for c, n in ld.depolarizing_pauli_2ds[op])
                tags.append("depolarizing")
        else:
            m = np.asarray(op, dtype=complex)
            tags.append("eff")
        out.append(coeff * m)
    return out, eig, tags


def _models(case):
    import pulser

    d = 3 if case["basis"].endswith("leak") else 2
    leak = d == 3
    isxy = case["basis"].startswith("xy")
    fam = case["family"]

    def unit(i, j):
        m = np.zeros((d, d), dtype=complex)
        m[i, j] = 1
        return m

    def mk(**kw):
        if leak:
            kw["with_leakage"] = True
            if "eff_noise_opers" not in kw:
                # Pulser demands an effective-noise operator when leakage is on: a tiny-rate |x><x|, the same in every level order
                kw["eff_noise_opers"] = [unit(2, 2)]
                kw["eff_noise_rates"] = [1e-9]
        return kw

    out = []
    if fam == "types":
        names = ["dephasing", "depolarizing"] + ([] if isxy else ["relaxation"])
        for r in RATES:
            for k in range(1, len(names) + 1):
                for sub in itertools.combinations(names, k):
                    kw = {}
                    for i, nme in enumerate(sub):
                        kw[f"{nme}_rate"] = r * (1 + 0.5 * i)
                    out.append((f"{'+'.join(sub)} rate={r}", mk(**kw)))
    elif fam == "units":
        for r in RATES:
            for i in range(d):
                for j in range(d):
                    out.append((f"E{i}{j} rate={r}", mk(eff_noise_opers=[unit(i, j)], eff_noise_rates=[r])))
    elif fam == "pairs":
        us = [(i, j) for i in range(d) for j in range(d)]
        for (a, b) in itertools.permutations(us, 2):
            out.append((f"E{a[0]}{a[1]}@0.3 + E{b[0]}{b[1]}@1.7", mk(eff_noise_opers=[unit(*a), unit(*b)], eff_noise_rates=[0.3, 1.7])))
            # one of the two channels switched off (rate exactly 0): the other keeps its own rate
            out.append((f"E{a[0]}{a[1]}@0 + E{b[0]}{b[1]}@1.7", mk(eff_noise_opers=[unit(*a), unit(*b)], eff_noise_rates=[0.0, 1.7])))
            out.append((f"E{a[0]}{a[1]}@0.3 + E{b[0]}{b[1]}@0", mk(eff_noise_opers=[unit(*a), unit(*b)], eff_noise_rates=[0.3, 0.0])))
    elif fam == "pauli":
        X = unit(0, 1) + unit(1, 0)
        Y = -1j * unit(0, 1) + 1j * unit(1, 0)
        Z = unit(0, 0) - unit(1, 1)
        combos = {"X": X, "Y": Y, "Z": Z, "X+iY": X + 1j * Y, "Z+X": Z + X}
        if leak:
            combos["rx+xr"] = unit(0, 2) + unit(2, 0)
            combos["gx-i xg"] = unit(1, 2) - 1j * unit(2, 1)
            combos["xx-rr"] = unit(2, 2) - unit(0, 0)
        for r in RATES:
            for nme, m in combos.items():
                out.append((f"{nme} rate={r}", mk(eff_noise_opers=[m], eff_noise_rates=[r])))
    elif fam == "seeded":
        rs = np.random.RandomState(4242 + case["seed"])
        for r in RATES:
            for t in range(3):
                m = rs.normal(size=(d, d)) + 1j * rs.normal(size=(d, d))
                m -= np.trace(m) / d * np.eye(d)
                kw = dict(eff_noise_opers=[m], eff_noise_rates=[r])
                if t == 2:
                    kw["dephasing_rate"] = 0.7
                    if not isxy:
                        kw["relaxation_rate"] = 0.2
                out.append((f"seeded#{t} rate={r}", mk(**kw)))
    return out, d, isxy


def run_case(case):
    import pulser
    import emu_mps as m
    from emu_base import PulserData

    models, d, isxy = _models(case)
    label, kw = models[case["index"]]
    spec = {"coords": kit.SHAPES["pair"], "device": "mock", "basis": "xy" if isxy else "rydberg", "pulses": [{"amp": ["const", 20, 1.0], "det": ["const", 20, 0.0], "phase": 0.0}]}
    seq = kit.build_sequence(spec)
    try:
        nm = pulser.NoiseModel(**kw)
    except Exception:
        return result(True, outcome="illegal", nontrivial=False)  # Pulser itself refuses this noise model: not a legal input
    # three routes to the same operators, taken one after the other in this process: the config's noise model; an equal model parsed a second time;
    # the model as the DEVICE's default with prefer_device_noise_model (the config then carries another Lindbladian model that must be ignored)
    last = None
    for route in ("config", "config-again", "device"):
        r = _one_route(case, route, seq, spec, kw, label, d, isxy)
        if not r["ok"]:
            if route != "config" and not r["sig"].startswith("known-form"):
                r["sig"] += "|" + route
            return r
        if r["outcome"] in ("refused",):
            return r
        last = r
    return last


def _one_route(case, route, seq, spec, kw, label, d, isxy):
    import dataclasses

    import pulser
    import emu_mps as m
    from emu_base import PulserData
    from pulser.devices import MockDevice

    nm = pulser.NoiseModel(**kw)
    ckw = {"noise_model": nm}
    if route == "device":
        dev = dataclasses.replace(MockDevice, default_noise_model=nm)
        old = kit.device
        kit.device = lambda name: dev
        try:
            seq = kit.build_sequence(spec)
        finally:
            kit.device = old
        other = dict(dephasing_rate=0.33) if "dephasing_rate" not in kw else dict(depolarizing_rate=0.21)
        ckw = {"noise_model": pulser.NoiseModel(**other), "prefer_device_noise_model": True}
    cfg = m.MPSConfig(dt=10, observables=[m.Occupation(evaluation_times=[1.0])], log_level=logging.CRITICAL, num_gpus_to_use=0, **ckw)
    full = f"basis={case['basis']} {label} (route: {route})"
    try:
        pd = PulserData(sequence=seq, config=cfg, dt=10)
    except NotImplementedError:
        return result(True, outcome="refused", nontrivial=False)
    except Exception as e:
        return result(False, sig=f"raises|{case['basis']}|{type(e).__name__}", msg=f"{full}: PulserData raised {type(e).__name__}: {e}", outcome="raise")
    sd = next(iter(pd.get_sequences()))
    got = [op.detach().cpu().numpy() for op in sd.lindblad_ops]
    if sd.dim != d or any(g.shape != (d, d) for g in got):
        return result(False, sig="dim", msg=f"{full}: dim {sd.dim}, operator shapes {[g.shape for g in got]}", outcome="dim")
    pops, eig, tags = _pulser_ops(pd.hamiltonian, d)
    # Pulser order -> emulator order
    emu_order = (["g", "r"] if not isxy else ["u", "d"]) + (["x"] if d == 3 else [])
    P = np.zeros((d, d))
    for k, s in enumerate(emu_order):
        P[k, eig.index(s)] = 1
    exp_ops = [P @ L @ P.T for L in pops]
    Dg, De = _dissipator(got, d), _dissipator(exp_ops, d)
    scale = max(1.0, np.abs(De).max())
    nz = np.abs(De).max() > 1e-6
    if not np.abs(Dg - De).max() <= 1e-9 * scale:  # NaN fails
        # Is the mismatch exactly one of the two recorded defects (and nothing else)?  Build what those defects would produce
        # from Pulser's operators and compare; any other deviation keeps its own signature.
        known = []
        alt = []
        for L, Lp, tag in zip(exp_ops, pops, tags):
            if tag == "eff" and d == 3 and not isxy:
                A = np.array(Lp, dtype=complex)
                A[:2, :2] = A[:2, :2][::-1, ::-1]  # only the 2x2 block is mapped, rows/columns to and from x keep Pulser's r/g order
                if not np.abs(A - L).max() <= 1e-12:  # NaN fails
                    known.append("eff_noise-3x3-x-rows-not-swapped")
                alt.append(A)
            elif tag == "dephasing" and d == 3:
                c = L[1, 1] / 2  # sqrt(2 Gamma) |1><1|  ->  sqrt(Gamma/2) (|0><0| - |1><1|)
                A = np.zeros((d, d), dtype=complex)
                A[0, 0], A[1, 1] = c, -c
                known.append("dephasing-as-sigma_z-with-leakage")
                alt.append(A)
            else:
                alt.append(L)
        Da = _dissipator(alt, d)
        if known and np.abs(Dg - Da).max() <= 1e-9 * scale:
            sig = "known-form|" + "+".join(sorted(set(known)))
        else:
            sig = f"{case['basis']}|{case['family']}|{label.split(' ')[0]}"
        return result(
            False,
            sig=sig,
            msg=f"{full}: dissipator differs from Pulser's definition by {np.abs(Dg - De).max():.3g}\n emulator ops (level order {emu_order}): {[np.round(g, 4).tolist() for g in got]}\n Pulser ops in emulator order: {[np.round(e, 4).tolist() for e in exp_ops]}",
            outcome=["diff", sig],
        )
    return result(True, outcome=["ok", rnd(np.abs(De).sum(), 5)], nontrivial=bool(nz))
