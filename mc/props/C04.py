"""
C04 - backends reject what they cannot emulate instead of returning wrong results.

E1: complete product channel basis {rydberg_global, rydberg_local, DMM, raman (digital), mw_global (XY), rydberg+raman}
x backend {sv, mps} x solver {tdvp, dmrg} x noise model {none, every single noise type incl. leakage, selected pairs} x
prefer_device_noise_model {off, on}.  Outcome of each run is either an exception (raised before any Results is returned)
or a Results object.  A Results object is only acceptable if it agrees with the dynamics Pulser defines for that sequence:
noiseless -> dense expm reference in Pulser's basis/Hamiltonian (Rydberg or XY); emu-sv + Lindbladian noise -> Lindblad
reference with Pulser's collapse operators; anything emu-sv cannot represent (XY, leakage, several bases) and DMRG with any
noise must be an exception.
"""
import itertools

import numpy as np

from mc import pulser_kit as kit
from mc import runner, seams
from mc.core import result, rnd
from mc.ref import noise_ref
from mc.ref import pulser_ref as R

ID = "C04"
LEVEL = "model_checking"
ENGINE = "E1 small-scope product explorer over (channel basis, backend, solver, noise model, device-noise flag)"
RULE = (
    "case = one (basis, backend, solver, noise, prefer_device) point; one real run; outcome in {raise, results}; results "
    "are compared with the reference of Pulser's Hamiltonian for that sequence; states = distinct cases; non-trivial = the "
    "combination is one a backend has to refuse or has a noise model"
)
ASSUMPTIONS = [
    "must-refuse table: emu-sv x {XY basis, leakage level, digital/raman basis, several bases}; both backends x {digital basis, several bases}; DMRG x any noise",
    "stochastic runs (emu-mps jump trajectories, shot-to-shot noise) that return Results are accepted here; their values are C17/C34's subject",
    "XY reference: U (s+ s- + h.c.) with Pulser's C3 coefficient, |1> = |d>",
]
CHUNK = 1

BASES = ["rydberg", "rydberg_local", "dmm", "raman", "xy", "xy_idle", "mixed", "mixed_detuning_only", "rydberg_init"]


def _noises():
    e2 = [[0, 1], [0, 0]]
    e3 = np.zeros((3, 3))
    e3[2, 0] = 1
    out = {
        "none": None,
        "relaxation": dict(relaxation_rate=0.5),
        "dephasing": dict(dephasing_rate=0.5),
        "hyperfine_dephasing": dict(dephasing_rate=0.2, hyperfine_dephasing_rate=0.3),
        "depolarizing": dict(depolarizing_rate=0.5),
        "eff_noise": dict(eff_noise_opers=[np.array(e2, dtype=complex)], eff_noise_rates=[0.4]),
        "leakage": dict(with_leakage=True, eff_noise_opers=[e3.astype(complex)], eff_noise_rates=[0.4]),
        "SPAM": dict(state_prep_error=0.1, p_false_pos=0.05, p_false_neg=0.05),
        "amplitude": dict(amp_sigma=0.05),
        "detuning": dict(detuning_sigma=0.3),
        "doppler": dict(temperature=50.0),
        "register": dict(temperature=50.0, trap_waist=1.0, trap_depth=150.0, disable_doppler=True),
        "relaxation+dephasing": dict(relaxation_rate=0.3, dephasing_rate=0.4),
        "SPAM+relaxation": dict(state_prep_error=0.1, p_false_pos=0.0, p_false_neg=0.0, relaxation_rate=0.3),
    }
    return out


def bounds(tier, seed):
    return {"bases": BASES, "backends": ["sv", "mps"], "solvers": ["tdvp", "dmrg (mps)"], "noise": list(_noises()), "prefer_device_noise_model": [False, True]}


def cases(tier, seed):
    for basis in BASES:
        for backend, solver in (("sv", "tdvp"), ("mps", "tdvp"), ("mps", "dmrg")):
            for nz in _noises():
                for dev in (False, True):
                    if dev and nz == "none":
                        continue
                    yield {"basis": basis, "backend": backend, "solver": solver, "noise": nz, "device_noise": dev}


def _spec(basis):
    p = [{"amp": ["const", 60, 6.0], "det": ["const", 60, 1.0], "phase": 0.3}]
    spec = {"coords": kit.SHAPES["pair"], "device": "mock", "basis": "rydberg", "pulses": p}
    if basis == "rydberg_local":
        spec["basis"] = "rydberg_local"
        spec["pulses"] = [dict(p[0], targets=[0, 1])]
    elif basis == "dmm":
        spec["dmm"] = {"weights": [1.0, 0.3], "wfs": [["const", 60, -4.0]]}
    elif basis == "raman":
        spec["basis"] = "raman"
    elif basis == "xy":
        spec["basis"] = "xy"
    elif basis == "xy_idle":
        # no drive at all: the XY exchange still acts during the idle time (visible from an initial excitation)
        spec["basis"] = "xy"
        spec["pulses"] = [{"amp": ["const", 60, 0.0], "det": ["const", 60, 0.0], "phase": 0.0}]
    elif basis == "mixed":
        spec["basis"] = "mixed"
        spec["pulses"] = p + [dict(p[0], ch="ch2")]
    elif basis == "mixed_detuning_only":
        # the digital basis is addressed with zero amplitude but a non-zero detuning (a light shift): still a three-level problem for Pulser
        spec["basis"] = "mixed"
        spec["pulses"] = p + [{"amp": ["const", 60, 0.0], "det": ["const", 60, 8.0], "phase": 0.0, "ch": "ch2"}]
    return spec


def _build(basis, nm, device_noise):
    """sequence; with device_noise the noise model is attached to a virtual device and the config asks to prefer it"""
    import dataclasses

    import pulser
    from pulser.devices import MockDevice

    spec = _spec(basis)
    if not device_noise:
        return kit.build_sequence(spec)
    dev = dataclasses.replace(MockDevice, default_noise_model=nm)
    old = kit.device
    kit.device = lambda name: dev
    try:
        return kit.build_sequence(spec)
    finally:
        kit.device = old


def run_case(case):
    import logging

    import pulser
    import emu_mps as m
    import emu_sv as sv
    import emu_mps.mps_backend_impl as impl_mod

    basis, backend, solver, nz, dev = case["basis"], case["backend"], case["solver"], case["noise"], case["device_noise"]
    label = f"basis={basis} backend={backend} solver={solver} noise={nz} device_noise={dev}"
    kw = _noises()[nz]
    try:
        nm = pulser.NoiseModel(**kw) if kw else None
        seq = _build(basis, nm, dev)
    except Exception as e:
        return result(True, outcome=["pulser-refuses", type(e).__name__], nontrivial=False)
    mod = sv if backend == "sv" else m
    ev = [0.5, 1.0]
    obs = [mod.Occupation(evaluation_times=ev), mod.CorrelationMatrix(evaluation_times=ev), mod.Energy(evaluation_times=ev)]
    ckw = {}
    cfg_init = None
    if basis == "rydberg_init":
        cfg_init = "product:10"
        try:
            ckw["initial_state"] = sv.StateVector.from_state_amplitudes(eigenstates=("r", "g"), amplitudes={"rg": 1.0}) if backend == "sv" else runner.mps_initial_state(2, "product:10")
        except Exception:
            pass
    if basis == "xy_idle":
        cfg_init = "product:10"
        st_cls = sv.StateVector if backend == "sv" else m.MPS
        eig = ("r", "g") if backend == "sv" else ("u", "d")
        try:
            ckw["initial_state"] = st_cls.from_state_amplitudes(eigenstates=("r", "g"), amplitudes={"rg": 1.0}) if backend == "sv" else runner.mps_initial_state(2, "product:10")
        except Exception:
            pass
    if nm is not None and not dev:
        ckw["noise_model"] = nm
    if dev:
        ckw["prefer_device_noise_model"] = True
    try:
        if backend == "sv":
            cfg = sv.SVConfig(dt=10, observables=obs, log_level=logging.CRITICAL, gpu=False, **ckw)
        else:
            if solver == "dmrg":
                ckw["solver"] = m.Solver.DMRG
            cfg = m.MPSConfig(dt=10, precision=1e-9, observables=obs, log_level=logging.CRITICAL, num_gpus_to_use=0, optimize_qubit_ordering=False, **ckw)
    except Exception as e:
        return result(True, outcome=["config-refuses", type(e).__name__], nontrivial=True)
    import contextlib
    import io

    try:
        with contextlib.redirect_stdout(io.StringIO()), seams.pulser_np_random(), seams.module_random(impl_mod, seams.ScriptedRandom(default_uniform=0.3, default_choice=0)):
            be_obj = (sv.SVBackend if backend == "sv" else m.MPSBackend)(seq, config=cfg)
            res = be_obj.run()
    except Exception as e:
        outcome = ["raise", type(e).__name__]
        res = None
        # error path: the caller catches the refusal and calls run() again on the SAME backend object - it has to be refused again
        try:
            with contextlib.redirect_stdout(io.StringIO()), seams.pulser_np_random(), seams.module_random(impl_mod, seams.ScriptedRandom(default_uniform=0.3, default_choice=0)):
                res = be_obj.run()
            outcome = ["raise-then-results", type(e).__name__]
        except NameError:
            pass  # the constructor itself refused
        except Exception:
            pass
    lind = nz in ("relaxation", "dephasing", "hyperfine_dephasing", "depolarizing", "eff_noise", "leakage", "relaxation+dephasing", "SPAM+relaxation")
    must_refuse = (
        basis in ("raman", "mixed", "mixed_detuning_only")
        or (basis == "rydberg_init" and "SPAM" in nz)  # a user initial state together with state-preparation errors is documented as not implemented
        or (backend == "sv" and (basis in ("xy", "xy_idle") or nz == "leakage"))
        or (solver == "dmrg" and nz != "none")
    )
    if res is None:
        # refusing is always allowed by the property; but a plain noiseless rydberg run must work
        if nz == "none" and basis in ("rydberg", "rydberg_local", "dmm", "rydberg_init") or (nz == "none" and basis in ("xy", "xy_idle") and backend == "mps" and solver != "dmrg"):
            return result(False, sig=f"refuses-supported|{backend}|{solver}|{basis}", msg=f"{label}: raised {outcome[1]} although the combination is documented as supported", outcome=outcome)
        return result(True, outcome=outcome, nontrivial=must_refuse or nz != "none")
    if must_refuse:
        why = "basis" if basis in ("raman", "mixed", "mixed_detuning_only", "xy", "xy_idle") else ("initial-state+spam" if basis == "rydberg_init" else None) or ("leakage" if nz == "leakage" else "dmrg+noise")
        occ = runner.to_np(runner.get_at(res, "occupation", 1.0))
        return result(False, sig=f"accepted|{backend}|{solver}|{why}", msg=f"{label}: returned Results (occupation at t=1: {np.round(occ, 5).tolist()}) for a combination the backend cannot emulate", outcome="accepted")
    # accepted: compare with Pulser's dynamics where the result is deterministic
    spec = _spec(basis)
    cfgd = {"dt": 10, "eval": ev}
    if cfg_init:
        cfgd["init"] = cfg_init
    tags = ["occupation", "correlation_matrix"] + (["energy"] if nz == "none" else [])
    tol = 1e-6
    if nz == "none" and solver != "dmrg":
        ref = runner.Ref(spec, cfgd, slm_rule="mid")
        bad = runner.compare_results(res, ref, ev, tol, tol, tags=tags)
        if bad:
            return result(False, sig=f"wrong-dynamics|{backend}|{basis}", msg=f"{label}: " + " ; ".join(bad[:3]), outcome="wrong")
        return result(True, outcome=["results-ok", rnd(ref.observables(1.0)["occupation"], 4)], nontrivial=basis in ("xy", "xy_idle"))
    if backend == "sv" and lind and "SPAM" not in nz:
        ops, _, d, _ = noise_ref.collapse_ops_for(seq, nm)
        Ls = R.embed_all(ops, 2, d)
        ref = runner.Ref(spec, cfgd, slm_rule="mid", Ls=Ls, dim=d)
        bad = runner.compare_results(res, ref, ev, tol, tol, tags=tags)
        if bad:
            return result(False, sig=f"wrong-dynamics|sv|{nz}", msg=f"{label}: " + " ; ".join(bad[:3]), outcome="wrong")
        return result(True, outcome=["lindblad-ok", rnd(ref.observables(1.0)["occupation"], 4)], nontrivial=True)
    return result(True, outcome=["results-unchecked"], nontrivial=nz != "none")
