"""
C03 - results are independent of atom labelling and internal qubit reordering.

E2/E3, differential: for each base sequence (global drive, per-atom DMM, local channel, SLM mask, one badly prepared atom) the
full group action is explored: EVERY permutation pi of the register insertion order x qubit-order optimisation {off, on with
EVERY optimiser answer p in S_N} x observable set {permutable observables, + StateResult (reordering must switch itself off)}.
The exact sampling distribution of the reported bitstring is computed by enumerating every answer path of the per-qubit draws.
Oracle (no hand-written expected values): results of (pi, p) == results of (identity, off) looked up by atom NAME; atom_order
== the register's order; energies equal.  The base run itself is compared with the dense reference once (anchors the orbit).
"""
import itertools
import json

import numpy as np

from mc import explore, runner, seams
from mc.core import result, rnd
from mc.pulser_kit import SHAPES, chain, ladder
from mc.props.C02 import drives
from mc.ref import pulser_ref as R

ID = "C03"
LEVEL = "model_checking"
ENGINE = "E2/E3 group-orbit explorer: (register relabelling pi) x (optimiser answer p) x observable set, differential oracle + exact sampling distribution by path enumeration"
RULE = (
    "case = (base sequence, pi); inside the case: ordering off + every optimiser answer p of the alphabet, both observable sets, and "
    "for N=3 every sampling path of the bitstring draw; states = distinct (base, pi, p, observable set) runs; non-trivial = pi or p is not the identity"
)
ASSUMPTIONS = [
    "any permutation is a legal answer of the heuristic optimiser (injected through emu_mps.optimatrix.minimize_bandwidth)",
    "different internal orders give different two-site-TDVP splitting errors: tolerance 5e-5 (N<=4 weak drives, measured <= 3e-6), 1e-3 strong SLM drive; larger N: 2e-3",
    "bitstring distribution = product of the normalised conditional weights the sampler offered to torch.multinomial",
]
CHUNK = 1
NAMES = ["a", "b", "c", "d", "e", "f", "g", "h", "i", "j", "k", "l"]


def base_spec(shape, kind, coords=None):
    coords = coords or SHAPES[shape]
    n = len(coords)
    d = drives("global" if kind == "bad" else kind, 0.7, n)
    spec = {"coords": coords, "ids": NAMES[:n], "device": "mock", "basis": "rydberg", "pulses": d["pulses"] + d.get("extra", [])}
    for k in ("dmm", "slm", "local_channel"):
        if k in d:
            spec[k] = d[k]
    mask = None
    if kind == "bad":
        mask = [0] * n
        mask[1] = 1
    return spec, mask


def relabel(spec, mask, pi):
    """register built in the order pi: position i holds the atom that was at position pi[i]"""
    n = len(pi)
    inv = {old: new for new, old in enumerate(pi)}
    s = dict(spec)
    s["coords"] = [spec["coords"][j] for j in pi]
    s["ids"] = [spec["ids"][j] for j in pi]
    if "dmm" in spec:
        s["dmm"] = dict(spec["dmm"], weights=[spec["dmm"]["weights"][j] for j in pi])
    if "slm" in spec:
        s["slm"] = sorted(inv[j] for j in spec["slm"])
    if "local_channel" in spec:
        s["local_channel"] = {"target": inv[spec["local_channel"]["target"]]}
    m = [mask[j] for j in pi] if mask is not None else None
    return s, m


def _perms(n, tier, full_upto):
    if n <= full_upto:
        return [list(p) for p in itertools.permutations(range(n))]
    ident = list(range(n))
    out = [ident, ident[::-1], ident[1:] + ident[:1]]
    for k in range(n - 1):
        q = list(ident)
        q[k], q[k + 1] = q[k + 1], q[k]
        out.append(q)
    return out


def bounds(tier, seed):
    return {
        "bases": ["global", "dmm", "local", "slm", "bad (SPAM, one bad atom)"],
        "registers": ["bent3", "zig4"] + (["chain5", "ladder6", "chain8"] if tier == "thorough" else []),
        "pi": "all of S_N for N<=4 (quick: S_3 and the generators+reversal+shift of S_4); generators for larger N",
        "optimiser_answers": "all of S_N for N=3 (quick) / N<=4 (thorough); generators for larger N; plus ordering off",
        "evaluation_times": "occupation and correlation matrix at exactly N times (N = number of atoms), compared at 0.5 and 1.0",
        "observable_sets": ["occupation, correlation_matrix, energy, bitstrings(1 shot, exact distribution for N=3)", "+ state (ordering must switch off)"],
    }


def cases(tier, seed):
    plan = [("bent3", None, 3, 3)]
    plan.append(("zig4", None, 3 if tier == "quick" else 4, 3 if tier == "quick" else 4))
    if tier == "thorough":
        plan += [("chain5", chain(5), 0, 0), ("ladder6", ladder(6), 0, 0), ("chain8", chain(8), 0, 0)]
    for shape, coords, full_pi, full_p in plan:
        n = len(coords or SHAPES[shape])
        for kind in ("global", "dmm", "local", "slm", "bad"):
            if n > 4 and kind == "global" and shape != "chain5":
                continue
            for pi in _perms(n, tier, full_pi):
                yield {"shape": shape, "coords": coords, "kind": kind, "pi": pi, "full_p": full_p, "tier": tier}


def _times(n):
    """exactly as many evaluation times as there are atoms (a time axis as long as the atom axis), always containing 0.5 and 1.0"""
    ts = [0.5, 1.0]
    k = 1
    while len(ts) < n:
        t = k / (2.0 * n)
        if all(abs(t - u) > 1e-9 for u in ts):
            ts.append(t)
        k += 1
    return sorted(ts)


def _observables(with_state, shots, n=2):
    import emu_mps as m

    obs = [m.Occupation(evaluation_times=_times(n)), m.CorrelationMatrix(evaluation_times=_times(n)), m.Energy(evaluation_times=[0.5, 1.0])]
    # a second instance of the per-atom observables under a tag suffix: it has to be un-permuted exactly like the plain one
    obs += [m.Occupation(evaluation_times=[1.0], tag_suffix="again"), m.CorrelationMatrix(evaluation_times=[1.0], tag_suffix="again")]
    if shots:
        obs.append(m.BitStrings(evaluation_times=[1.0], num_shots=shots))
    if with_state:
        obs.append(m.StateResult(evaluation_times=[1.0]))
    return obs


def _run(spec, mask, p, with_state=False, shots=0, dt=10, n_traj=1):
    import pulser

    cfg = {"dt": dt, "eval": [1.0], "precision": 1e-9, "ordering": p is not None}
    if n_traj > 1:
        cfg["n_trajectories"] = n_traj
    noise = pulser.NoiseModel(state_prep_error=0.2, p_false_pos=0.0, p_false_neg=0.0) if mask is not None else None
    script = {"uniform": [seams.bad_mask_uniform(mask)]} if mask is not None else {}
    with seams.pulser_np_random(**script):
        if p is not None:
            with seams.optimiser_answer(p):
                res, _ = runner.run_mps(spec, cfg, observables=_observables(with_state, shots, len(spec["coords"])), noise=noise)
        else:
            res, _ = runner.run_mps(spec, cfg, observables=_observables(with_state, shots, len(spec["coords"])), noise=noise)
    return res


def _by_name(res):
    """per-atom results keyed by atom name"""
    order = list(res.atom_order)
    out = {"order": order}
    occ = {}
    for t in (0.5, 1.0):
        v = runner.to_np(runner.get_at(res, "occupation", t)).astype(float)
        occ[t] = {q: float(v[i]) for i, q in enumerate(order)}
    c = runner.to_np(runner.get_at(res, "correlation_matrix", 1.0)).astype(float)
    c05 = runner.to_np(runner.get_at(res, "correlation_matrix", 0.5)).astype(float)
    out["occ"] = occ
    out["corr"] = {(a, b): float(c[i, j]) for i, a in enumerate(order) for j, b in enumerate(order)}
    out["corr"].update({(a, b, 0.5): float(c05[i, j]) for i, a in enumerate(order) for j, b in enumerate(order)})
    out["energy"] = {t: float(np.real(runner.to_np(runner.get_at(res, "energy", t)))) for t in (0.5, 1.0)}
    v2 = runner.to_np(runner.get_at(res, "occupation_again", 1.0)).astype(float)
    c2 = runner.to_np(runner.get_at(res, "correlation_matrix_again", 1.0)).astype(float)
    out["suffix_diff"] = max(float(np.abs(v2 - v).max()), float(np.abs(c2 - c).max()))
    return out


def _diff(a, b):
    d = 0.0
    for t in a["occ"]:
        d = max(d, max(abs(a["occ"][t][q] - b["occ"][t][q]) for q in a["occ"][t]))
    d = max(d, max(abs(a["corr"][k] - b["corr"][k]) for k in a["corr"]))
    escale = max(1.0, max(abs(v) for v in a["energy"].values()))
    d = max(d, max(abs(a["energy"][t] - b["energy"][t]) for t in a["energy"]) / escale)
    return d


def _bit_dist_by_name(spec, mask, p):
    """exact distribution of the single reported bitstring, keyed by a name->bit mapping"""
    order_box = []

    def run():
        res = _run(spec, mask, p, shots=1, dt=50)  # two solver steps: the path enumeration re-runs the whole simulation per path
        order_box.append(list(res.atom_order))
        return runner.get_at(res, "bitstrings", 1.0)

    dist, paths = explore.exact_bitstring_distribution(run)
    order = order_box[0]
    named = {}
    for bs, pr in dist.items():
        key = "".join(sorted(f"{q}{b}" for q, b in zip(order, bs)))
        named[key] = named.get(key, 0.0) + pr
    return named, paths


def run_case(case):
    n = len(case["coords"] or SHAPES[case["shape"]])
    spec0, mask0 = base_spec(case["shape"], case["kind"], case["coords"])
    pi = case["pi"]
    spec, mask = relabel(spec0, mask0, pi)
    label0 = f"{case['shape']}/{case['kind']} pi={pi}"
    tol = (5e-5 if case["kind"] != "slm" or n < 4 else 1e-3) if n <= 4 else 2e-3
    states = transitions = 0
    try:
        base = _by_name(_run(spec0, mask0, None))
        transitions += 1
    except Exception as e:
        return result(False, sig=f"raises|base|{type(e).__name__}", msg=f"{label0}: base run raised {type(e).__name__}: {e}", outcome="raise")
    # anchor: the base run against the dense reference (noiseless bases only; the bad-atom base is C25's subject)
    if n <= 4 and mask0 is None and pi == list(range(n)):
        ref = runner.Ref(spec0, {"dt": 10, "eval": _times(n)}, slm_rule="mid")
        o = ref.observables(1.0)["occupation"]
        got = np.array([base["occ"][1.0][q] for q in spec0["ids"]])
        if not np.abs(got - o).max() <= tol + 1e-6:  # NaN fails
            return result(False, sig="anchor", msg=f"{label0}: base run differs from the dense reference: {got} vs {o}", outcome="anchor")
    answers = [None] + _perms(n, case["tier"], case["full_p"])
    base_bits = None
    worst = 0.0
    for p in answers:
        for with_state in (False, True):
            if with_state and p is not None and p != answers[1] and p != answers[-1]:
                continue  # the state set only needs to show that ordering is switched off: identity, one non-trivial answer
            label = f"{label0} optimiser_answer={p} with_state={with_state}"
            try:
                res = _run(spec, mask, p, with_state=with_state)
            except Exception as e:
                return result(False, sig=f"raises|{type(e).__name__}", msg=f"{label}: {type(e).__name__}: {e}", outcome="raise")
            states += 1
            transitions += 1
            if list(res.atom_order) != spec["ids"]:
                return result(False, sig="atom_order", msg=f"{label}: atom_order {res.atom_order} != register order {spec['ids']}", outcome="order")
            got = _by_name(res)
            if got["suffix_diff"] > 1e-12:
                return result(False, sig="tag-suffix|not-unpermuted", msg=f"{label}: Occupation / CorrelationMatrix requested a second time under tag_suffix='again' differ from the plain ones by {got['suffix_diff']:.3e} (same state, same time)", outcome="suffix")
            d = _diff(base, got)
            worst = max(worst, d)
            if not d <= tol:  # NaN fails
                bad_t = {q: (round(base["occ"][1.0][q], 6), round(got["occ"][1.0][q], 6)) for q in spec0["ids"]}
                sig = "relabel" if p is None else ("optimiser" if pi == list(range(n)) else "relabel+optimiser")
                return result(False, sig=f"{sig}|{case['kind']}", msg=f"{label}: per-atom results differ from the base run by {d:.3e} > {tol:.1e}; occupation(base, got) by name at t=1: {bad_t}; energy {base['energy']} vs {got['energy']}", outcome="diff")
            if not with_state and p is not None and case["kind"] in ("dmm", "local"):
                # the same (noise-free or SPAM) trajectory simulated twice in one run: the average must equal the single run
                try:
                    res2 = _run(spec, mask, p, n_traj=2)
                except Exception as e:
                    return result(False, sig=f"raises|n_trajectories=2|{type(e).__name__}", msg=f"{label} n_trajectories=2: {type(e).__name__}: {e}", outcome="raise")
                transitions += 2
                d2 = _diff(base, _by_name(res2))
                if d2 > tol:
                    return result(False, sig=f"repeated-trajectory|{case['kind']}", msg=f"{label}: with n_trajectories=2 (the same trajectory twice) the averaged per-atom results differ from the single run by {d2:.3e}", outcome="reps")
            if with_state:
                st = runner.get_at(res, "state", 1.0)
                if not abs(float(st.norm()) - 1) <= 1e-6:  # NaN fails
                    return result(False, sig="state-norm", msg=f"{label}: returned state has norm {float(st.norm())}", outcome="norm")
        # exact bitstring distribution (N = 3: at most 8 paths per configuration)
        if n == 3:
            try:
                bits, paths = _bit_dist_by_name(spec, mask, p)
            except Exception as e:
                return result(False, sig=f"raises|bitstrings|{type(e).__name__}", msg=f"{label0} optimiser_answer={p}: bitstring exploration raised {type(e).__name__}: {e}", outcome="raise")
            transitions += paths
            if base_bits is None:
                base_bits, paths0 = _bit_dist_by_name(spec0, mask0, None)
                transitions += paths0
                tot = sum(base_bits.values())
                if not abs(tot - 1) <= 1e-9:  # NaN fails
                    return result(False, sig="bitstrings|mass", msg=f"{label0}: explored probability mass {tot}", outcome="mass")
            dd = explore.dist_distance(base_bits, bits)
            worst = max(worst, dd)
            if not dd <= max(tol, 1e-6):  # NaN fails
                return result(False, sig=f"bitstrings|{'relabel' if p is None else 'optimiser'}|{case['kind']}", msg=f"{label0} optimiser_answer={p}: exact bitstring distribution (by atom name) differs from the base run by {dd:.3e}\n base {rnd(base_bits, 5)}\n got  {rnd(bits, 5)}", outcome="bits")
    nontrivial = pi != list(range(n)) or len(answers) > 2
    return result(True, outcome=["ok", rnd([base["occ"][1.0][q] for q in spec0["ids"]], 4), states], states=states, transitions=transitions, nontrivial=nontrivial, extra={"worst": worst})
