"""
C14 - observables are recorded exactly at their requested times.

E1: complete product duration x dt x evaluation-time set (all subsets of size <= k of an alphabet that contains 0, 1,
fractions that are / are not multiples of dt, grid points +- 1 ulp, 0.1+0.2, the last half ns) x how the times are given
{per observable, config default, two observables with different sets} x backend {sv, sv+Lindblad, mps-tdvp, mps-dmrg,
mps-noisy with scripted no-jump RNG}, each a real run.
Oracle: for every observable tag the result times equal the requested ones (each exactly once, increasing, nothing else) and
the VALUE equals the dense reference at exactly that time (2 atoms with a fast drive: one grid point early/late differs by > 1e-3).
"""
import contextlib
import io
import itertools
import logging

import numpy as np

from mc import pulser_kit as kit
from mc import runner, seams
from mc.core import result, rnd
from mc.ref import pulser_ref as R

ID = "C14"
LEVEL = "model_checking"
ENGINE = "E1 small-scope product explorer over (duration, dt, evaluation-time set, time-passing mode, backend)"
RULE = (
    "case = (duration, dt, backend, mode); inside it every evaluation-time subset of size <= k of the alphabet is run; "
    "states = distinct (case, set) runs; non-trivial = the set contains a time that is not a multiple of dt"
)
ASSUMPTIONS = [
    "Pulser itself refuses two times closer than 1e-12 inside one observable: such twins are given to two different observables",
    "requested and stored times are compared with tolerance 1e-9 (the backend stores t_k / T, one ulp away from the request)",
    "reference value = dense propagation of the midpoint-PCHIP piecewise-constant Hamiltonian on the reference grid (C01/C16 oracle)",
    "DMRG: only the times are checked here (values are C09's subject)",
    "mps-noisy: relaxation 0.2/us, scripted jump threshold 1e-9 (no jump): value = normalised evolution under H - i/2 sum L^dag L",
]
CHUNK = 1

BACKENDS = ["sv", "svnoise", "mps", "dmrg", "mpsnoisy"]
MODES = ["per_observable", "default", "mixed", "default_then_own", "rerun", "same_class"]


def _dts(T, tier):
    base = [10, 7, 3, T, 2 * T]
    if tier == "thorough":
        base += [0.5, 16]
    return base


def bounds(tier, seed):
    return {
        "durations": [20, 97] + ([50, 100] if tier == "thorough" else []),
        "dt": "10, 7, 3, T, 2T" + (", 0.5, 16" if tier == "thorough" else ""),
        "eval_alphabet": "0, 1/3, 0.37, 0.5, k*dt/T, nextafter(k*dt/T, +-), 0.1+0.2, (T-0.5)/T, 1, dt/T+5e-11, 5e-11",
        "subset_size": 2 if tier == "quick" else 3,
        "modes": MODES,
        "backends": BACKENDS,
    }


def cases(tier, seed):
    for T in [20, 97] + ([50, 100] if tier == "thorough" else []):
        for dt in _dts(T, tier):
            for be in BACKENDS:
                if be in ("mps", "dmrg", "mpsnoisy") and dt < 3:
                    continue
                for mode in MODES:
                    yield {"T": T, "dt": dt, "backend": be, "mode": mode, "k": 2 if tier == "quick" else 3}


def _alphabet(T, dt):
    k = max(1, int((T / dt) // 2))
    g = min(k * dt / T, 1.0)
    vals = [0.0, 1 / 3, 0.37, 0.5, g, float(np.nextafter(g, 2.0)) if g < 1 else g, float(np.nextafter(g, -1.0)), 0.1 + 0.2, max(0.0, (T - 0.5) / T), 1.0]
    # just inside the window within which the grid treats two times as one (1e-10 of the duration): next to a grid point, next to time 0
    g1 = dt / T if dt < T else g
    vals += [g1 + 5e-11, 5e-11]
    # chains around a grid point whose links are shorter than the tolerance while the ends are further apart than it
    vals += [g1 - 1.4e-10, g1 - 0.7e-10, g1 + 0.7e-10]
    out = []
    for v in vals:
        if 0.0 <= v <= 1.0 and v not in out:
            out.append(v)
    return out


def _split(ev):
    first, second = [], []
    for e in ev:
        (second if any(abs(e - f) <= 1e-12 for f in first) else first).append(e)
    return first, second


def run_case(case):
    import pulser
    import emu_mps as m
    import emu_sv as sv
    import emu_mps.mps_backend_impl as impl_mod

    T, dt, be, mode = case["T"], case["dt"], case["backend"], case["mode"]
    spec = {"coords": kit.SHAPES["pair"], "device": "mock", "basis": "rydberg", "pulses": [{"amp": ["ramp", T, 10.0, 50.0], "det": ["ramp", T, -20.0, 30.0], "phase": 0.4}]}
    seq = kit.build_sequence(spec)
    mod = sv if be in ("sv", "svnoise") else m
    alph = _alphabet(T, dt)
    # singles and pairs over the whole alphabet; triples (thorough) over its first ten letters only (the boundary letters added later come last)
    sets = [c for k in range(1, case["k"] + 1) for c in itertools.combinations(alph if k <= 2 else alph[:10], k)]
    noise = None
    Ls = None
    noise_term = None
    if be == "svnoise":
        noise = pulser.NoiseModel(dephasing_rate=0.3)
        Lz = np.sqrt(0.3 / 2) * np.diag([1.0, -1.0]).astype(complex)
        Ls = R.embed_all([Lz], 2, 2)
    if be == "mpsnoisy":
        noise = pulser.NoiseModel(relaxation_rate=0.2)
        L = np.zeros((2, 2), dtype=complex)
        L[0, 1] = np.sqrt(0.2)
        noise_term = -0.5j * L.conj().T @ L
    states = transitions = 0
    nontriv = 0
    chk = 0.0
    known_hit = None
    n_known = 0
    for ev in sets:
        ev = tuple(sorted(ev))
        first, second = _split(ev)
        if any(abs(a - b) <= 1e-12 for i, a in enumerate(second) for b in second[i + 1:]):
            continue  # three mutually indistinguishable times cannot be spread over two observables (Pulser refuses twins inside one)
        if mode == "mixed" and not second:
            if len(first) < 2:
                continue
            first, second = list(first[:1]), list(first[1:])
        label = f"T={T} dt={dt} backend={be} mode={mode} eval={list(ev)}"
        want = {}
        ckw = {}
        if mode == "rerun" and (second or len(ev) != 2):
            continue
        if mode == "same_class":
            if second or len(first) < 2:
                continue
            # two Occupation observables (second one under a tag suffix) with different times
            obs = [mod.Occupation(evaluation_times=list(first[:1])), mod.Occupation(evaluation_times=list(first[1:]), tag_suffix="late")]
            want = {"occupation": list(first[:1]), "occupation_late": list(first[1:])}
        elif mode == "default_then_own":
            if second or len(first) < 2:
                continue
            # first observable follows the config default (the first time), the second one brings its own times
            obs = [mod.Occupation(evaluation_times=None), mod.Energy(evaluation_times=list(first[1:]))]
            ckw["default_evaluation_times"] = list(first[:1])
            want = {"occupation": list(first[:1]), "energy": list(first[1:])}
        elif mode == "default" and not second:
            obs = [mod.Occupation(evaluation_times=None), mod.Energy(evaluation_times=None)]
            ckw["default_evaluation_times"] = list(first)
            want = {"occupation": first, "energy": first}
        elif second:
            obs = [mod.Occupation(evaluation_times=first), mod.Energy(evaluation_times=second)]
            want = {"occupation": first, "energy": second}
        else:
            obs = [mod.Occupation(evaluation_times=first), mod.Energy(evaluation_times=first)]
            want = {"occupation": first, "energy": first}
        if noise is not None:
            ckw["noise_model"] = noise
        try:
            with contextlib.redirect_stdout(io.StringIO()):
                if mod is sv:
                    cfg = sv.SVConfig(dt=dt, krylov_tolerance=1e-10, observables=obs, log_level=logging.CRITICAL, gpu=False, **ckw)
                    backend = sv.SVBackend(seq, config=cfg)
                    res = backend.run()
                    reruns = [backend.run(), sv.SVBackend(seq, config=cfg).run()] if mode == "rerun" else []
                else:
                    if be == "dmrg":
                        ckw["solver"] = m.Solver.DMRG
                    cfg = m.MPSConfig(dt=dt, precision=1e-9, observables=obs, log_level=logging.CRITICAL, num_gpus_to_use=0, optimize_qubit_ordering=False, **ckw)
                    with seams.module_random(impl_mod, seams.ScriptedRandom(default_uniform=1e-9, default_choice=0)):
                        backend = m.MPSBackend(seq, config=cfg)
                        res = backend.run()
                        reruns = [backend.run(), m.MPSBackend(seq, config=cfg).run()] if mode == "rerun" else []
        except Exception as e:
            return result(False, sig=f"raises|{be}|{type(e).__name__}", msg=f"{label}: run raised {type(e).__name__}: {str(e)[:300]}", outcome="raise", states=states + 1, transitions=transitions + 1)
        states += 1
        transitions += 1 + len(reruns)
        # the same backend object run again, and a new backend on the same config object: identical results (no state carried between runs)
        for k, r2 in enumerate(reruns):
            for tag in want:
                t1, t2 = list(res.get_result_times(tag)), list(r2.get_result_times(tag))
                v1 = [np.real(runner.to_np(res.get_result(tag, t))).astype(float) for t in t1]
                v2 = [np.real(runner.to_np(r2.get_result(tag, t))).astype(float) for t in t2]
                if t1 != t2 or any(np.abs(a - b).max() > 1e-12 for a, b in zip(v1, v2)):
                    return result(False, sig=f"rerun|{be}|{tag}", msg=f"{label}: {'second run() of the same backend' if k == 0 else 'new backend on the same config object'} gives {tag} at {t2} = {[np.round(v, 8).tolist() for v in v2]}, first run gave {t1} = {[np.round(v, 8).tolist() for v in v1]}", outcome="rerun", states=states, transitions=transitions)
        allev = sorted(set(first) | set(second))
        ref = None
        if be != "dmrg":
            ref = runner.Ref(spec, {"dt": dt, "eval": allev}, slm_rule="mid", Ls=Ls)
            if noise_term is not None:
                Hs = [H + R.embed(noise_term, 0, 2, 2) + R.embed(noise_term, 1, 2, 2) for H in ref.Hs]
                sts = R.propagate_sv(ref.states[0], Hs, ref.times)
                ref.states = [s / np.linalg.norm(s) for s in sts]
        for tag, times in want.items():
            got = list(res.get_result_times(tag)) if tag in res.get_result_tags() else []
            exp = []
            for t in sorted(times):
                # requested times closer than the matching tolerance of the backends (1e-10 of the duration) are ONE time ("duplicates within tolerance")
                if not exp or t - exp[-1] > 1e-10:
                    exp.append(t)
            if len(got) != len(exp) or any(abs(a - b) > 1e-9 for a, b in zip(got, exp)):
                kind = "missing" if len(got) < len(exp) else ("extra" if len(got) > len(exp) else "shifted")
                # Recorded finding: the grid merges times closer than 1e-10 of the duration (keeping the first of a run) and the backends match a
                # requested time to EVERY grid time within 1e-10 - a requested time that sits between two kept grid times, less than the tolerance
                # from each, is recorded twice.  It is that finding and nothing else iff the recorded times are exactly what these two documented
                # rules produce from the inputs of this run.
                Tn = float(T)
                cands = sorted({i * float(dt) / Tn for i in range(int(np.floor(Tn / dt)) + 1)} | {1.0} | set(allev) | set(ckw.get("default_evaluation_times", [])))
                kept = [cands[0]]
                for c in cands[1:]:
                    if c - kept[-1] > 1e-10:
                        kept.append(c)
                kept[-1] = 1.0
                pred = [c for c in kept if any(abs(c - e) < 1e-10 for e in times)]
                if kind == "extra" and len(got) == len(pred) and all(abs(a - b) <= 1e-12 for a, b in zip(got, pred)):
                    if known_hit is None:
                        known_hit = f"{label}: {tag} recorded at {[float(x) for x in got]} but requested at {sorted(times)} (grid keeps {[c for c in kept if abs(c - got[0]) < 5e-10]})"
                    n_known += 1
                    continue  # the rest of this case is still explored and judged
                return result(False, sig=f"times|{be}|{mode}|{kind}", msg=f"{label}: {tag} recorded at {got} but requested at {exp}", outcome="times", states=states, transitions=transitions)
            if any(b <= a for a, b in zip(got, got[1:])):
                return result(False, sig=f"times|{be}|order", msg=f"{label}: {tag} times not increasing: {got}", outcome="order", states=states, transitions=transitions)
            if ref is None:
                continue
            # values: not judged when two candidate times (requested times, dt multiples) lie within the merge window's neighbourhood of each other -
            # which Hamiltonian "the step ending at t" has then depends on which of the two the grid kept; the times oracle above still applies
            cz = sorted({i * float(dt) / float(T) for i in range(int(np.floor(float(T) / dt)) + 1)} | {1.0} | set(allev))
            if any(1e-13 < b - a < 1e-9 for a, b in zip(cz, cz[1:])):
                continue
            for t in exp:
                o = ref.observables(t)
                if tag.startswith("occupation"):
                    g = runner.to_np(runner.get_at(res, tag, t)).astype(float)
                    chk += float(g.sum())
                    err = np.abs(g - o["occupation"]).max()
                    lim = 2e-6
                else:
                    if be == "mpsnoisy":
                        continue  # energy of the no-jump trajectory is taken with the effective Hamiltonian; C13/C17 cover values
                    g = float(np.real(runner.to_np(runner.get_at(res, tag, t))))
                    err = abs(g - o["energy"]) / max(1.0, ref.max_norm_H())
                    lim = 2e-6
                if not err <= lim:
                    return result(False, sig=f"value|{be}|{tag}", msg=f"{label}: {tag} stored for t={t} is {np.round(g, 6).tolist()} but the state at exactly that time gives {np.round(o['occupation' if tag.startswith('occupation') else 'energy'], 6).tolist()} (err {err:.2e})", outcome="value", states=states, transitions=transitions)
        nontriv += any(abs((e * T / dt) - round(e * T / dt)) > 1e-6 for e in allev)
    if known_hit is not None:
        return result(False, sig="times|requested-time-within-tolerance-of-two-grid-times|extra", msg=known_hit + f" ({n_known} time sets of this case; everything else of the case held)", outcome=["known", states, n_known, round(chk, 3)], states=max(states, 1), transitions=max(transitions, 1), nontrivial=nontriv > 0)
    return result(True, outcome=["ok", states, round(chk, 3)], states=max(states, 1), transitions=max(transitions, 1), nontrivial=nontriv > 0)
