"""
C27 - a loadable autosave always survives a crash during autosaving.

E4: after a first autosave has completed, a second (and, chained after a recovery, a third) autosave is executed over an interposed file
system.  A crash is injected BEFORE and AFTER every file-system mutation the code performs during that autosave - whatever it performs is
enumerated from a recording run, not from a fixed list (today: open-for-write, the pickle's write calls, close, rename base->.bak,
rename .new->base, remove .bak) - and, for every write, DURING it with the torn-write classes {0 bytes, 1 byte, half, all-but-one}.
Oracle: after each crash the advertised file exists, unpickles, and the real MPSBackend.resume(file) completes with the results of the
uninterrupted run (the previous or the new snapshot are both acceptable).
"""
import logging
import os
import pickle

from mc import autosave as A
from mc import seams
from mc.core import result, rnd
from mc.props import C26

ID = "C27"
LEVEL = "fault_enumeration"
ENGINE = "E4 crash-point / torn-write enumerator over the interposed file system, real recovery"
RULE = (
    "case = (solver path, positions of autosave #1 and #2); inside: one recording run, then one run per (file-system event of autosave #2, "
    "before/after/torn class); evaluations = crash points explored; non-trivial = crash strictly inside the autosave (not before its first / after its last event)"
)
ASSUMPTIONS = [
    "crash = process death: data already handed to write() stays in the file, later operations do not happen (no power-loss reordering of un-synced data)",
    "the advertised file name is the one the backend logs: impl.autosave_file",
]
CHUNK = 1


def bounds(tier, seed):
    return {
        "paths": ["tdvp", "dmrg", "noisy"],
        "autosave_positions": "(first, second) progress-call indices: (0,1), (1,3), (2,7)" if tier == "quick" else "every pair first < second <= 8 (36 pairs)",
        "crash_points": "before/after every FS event of autosave #2 + torn writes {0, 1, half, all-but-one}",
        "chained": "after recovery from a crash in autosave #2, autosave #3 is crashed at its first rename/replace event as well",
    }


def cases(tier, seed):
    pos = [(0, 1), (1, 3), (2, 7)] if tier == "quick" else [(a, b) for a in range(0, 8) for b in range(a + 1, 9)]
    for path in ("tdvp", "dmrg", "noisy"):
        for a, b in pos:
            yield {"path": path, "shape": "bent3", "kind": "dmm", "perm": None, "first": a, "second": b}
    yield {"path": "tdvp", "shape": "bent3", "kind": "dmm", "perm": [0, 2, 1], "first": 1, "second": 3}


def run_case(case):
    seq, config, rng = C26._setup(case)
    label = " ".join(f"{k}={v}" for k, v in case.items())
    a, b = case["first"], case["second"]
    evaluations = 0
    inside = 0
    with A.scratch_dir() as wd:
        s0 = A.Session(wd, rng=rng(), optimiser=case["perm"])
        status, res = s0.run(seq, config())
        if status != "done":
            return result(False, sig="harness|baseline-crashed", msg=f"{label}: {res}", outcome="base")
        base = A.results_digest(res)
        # recording run: which file-system events does autosave #2 perform?
        rec = A.Session(wd, save_calls=[a, b], fs_target=(1, None, None), rng=rng(), optimiser=case["perm"])
        status, res = rec.run(seq, config())
        if status != "done" or not rec.fs_events:
            return result(False, sig="harness|no-events", msg=f"{label}: recording run {status}, events {rec.fs_events}", outcome="rec")
        events = rec.fs_events
        for f in os.listdir(wd):
            os.remove(os.path.join(wd, f))
        plan = []
        for k, (op, _) in enumerate(events):
            plan += [(k, "before"), (k, "after")]
            if op.startswith("write#"):
                plan += [(k, f"during:{c}") for c in ("0", "1", "half", "allbut1")]
        for k, when in plan:
            s1 = A.Session(wd, save_calls=[a, b], fs_target=(1, k, when), rng=rng(), optimiser=case["perm"])
            status, info = s1.run(seq, config())
            evaluations += 1
            where = f"crash {when} event #{k} {events[k][0]} of autosave #2 (events: {[e[0] for e in events]})"
            if status != "crashed":
                return result(False, sig="harness|crash-not-injected", msg=f"{label}: {where}: run ended with {status}", outcome="nocrash")
            path = s1.autosave_file
            listing = sorted(os.path.basename(f).split(".", 1)[-1] for f in os.listdir(wd))
            if path is None or not os.path.isfile(path):
                return result(False, sig=f"no-file|{when.split(':')[0]}|{events[k][0]}", msg=f"{label}: {where}: nothing exists under the advertised name {os.path.basename(str(path))}; directory holds suffixes {listing}", outcome="nofile", states=evaluations, transitions=evaluations)
            try:
                with open(path, "rb") as fh:
                    pickle.load(fh)
            except Exception as e:
                return result(False, sig=f"unloadable|{when.split(':')[0]}|{events[k][0]}", msg=f"{label}: {where}: the advertised file does not unpickle: {type(e).__name__}: {str(e)[:200]}", outcome="unload", states=evaluations, transitions=evaluations)
            # recover for real; in the chained variant crash the next autosave as well
            s2 = A.Session(wd, rng=s1.rng)
            status2, final = s2.resume(path)
            if status2 != "done":
                return result(False, sig=f"resume-failed|{events[k][0]}", msg=f"{label}: {where}: resume ended with {status2}: {final}", outcome="resfail")
            d = A.compare_digests(base, A.results_digest(final))
            if d:
                return result(False, sig=f"resume-differs|{events[k][0]}", msg=f"{label}: {where}: resumed results differ from the uninterrupted run: {d}", outcome="diff", states=evaluations, transitions=evaluations)
            inside += 0 < k or when != "before"
            for f in os.listdir(wd):
                os.remove(os.path.join(wd, f))
        # chained: crash in autosave #2 (after its first event), recover, crash in the recovered process's next autosave at every event 'after'
        for k3 in range(len(events)):
            s1 = A.Session(wd, save_calls=[a, b], fs_target=(1, 0, "after"), rng=rng(), optimiser=case["perm"])
            status, info = s1.run(seq, config())
            if status != "crashed":
                break
            s2 = A.Session(wd, save_calls=[0], fs_target=(0, k3, "after"), rng=s1.rng)
            status2, info2 = s2.resume(s1.autosave_file)
            evaluations += 1
            if status2 == "done":
                for f in os.listdir(wd):
                    os.remove(os.path.join(wd, f))
                continue
            path = s2.autosave_file
            if path is None or not os.path.isfile(path):
                return result(False, sig=f"no-file|chained|{events[min(k3, len(events) - 1)][0]}", msg=f"{label}: chained crash after event #{k3} of the autosave following a recovery: nothing under the advertised name", outcome="nofile", states=evaluations, transitions=evaluations)
            s3 = A.Session(wd, rng=s2.rng)
            status3, final = s3.resume(path)
            d = "resume did not finish" if status3 != "done" else A.compare_digests(base, A.results_digest(final))
            if d:
                return result(False, sig="resume-differs|chained", msg=f"{label}: chained crash after event #{k3}: {d}", outcome="diff", states=evaluations, transitions=evaluations)
            for f in os.listdir(wd):
                os.remove(os.path.join(wd, f))
    return result(True, outcome=["ok", case["path"], case["first"], case["second"], [e[0] for e in events], evaluations], states=evaluations, transitions=evaluations, nontrivial=inside > 0, extra={"evaluations": evaluations})
