"""
C02 - emu-mps TDVP runs reproduce the Pulser Hamiltonian dynamics.

E1 + E3: complete product of a sequence alphabet (ground-rydberg and XY; global drive, per-atom DMM, local channel, SLM) x
configuration alphabet (dt, precision, max_bond_dim, max_krylov_dim, interaction_cutoff, initial state) through the public
MPSBackend(seq, config).run(); with qubit-order optimisation ON the optimiser's answer is an environment choice and EVERY
permutation of S_N (N <= 4) is injected (plus one run with the real optimiser).  Oracle: scipy-expm propagation of the
midpoint-PCHIP piecewise-constant Hamiltonian built by mc/ref.
"""
import functools
import itertools
import json

import numpy as np

from mc import runner, seams
from mc.core import result, rnd
from mc.pulser_kit import SHAPES, chain
from mc.ref import pulser_ref as R

ID = "C02"
LEVEL = "model_checking"
ENGINE = "E1 small-scope product explorer over (register, drive kind, basis, config) + E3 every optimiser answer p in S_N"
RULE = (
    "case = one (sequence, config, optimiser answer) point of the product in `bounds`; the real MPSBackend.run() is executed and "
    "occupation, correlation matrix, energy, variance, second moment at every evaluation time are compared with the dense expm "
    "reference; distinct = distinct case dicts; non-trivial = reference final state differs from the initial one by > 1e-3"
)
ASSUMPTIONS = [
    "reference = scipy PCHIP of Pulser's samples at step midpoints + scipy expm (mc/ref)",
    "XY reference: U_ij (s+_i s-_j + h.c.) with U = C3 (1-3cos^2)/r^3, drive as in the ising case with |1> = |d>",
    "tolerance = 4*n_steps*N*precision + TDVP splitting class bound (0 for N=2; 5e-5 weak drives; 1e-3 / 1e-2 for the strong SLM drive on 4 atoms, "
    "ising / XY), each > 3x the largest error measured on the unchanged tree; realistic defects (wrong atom, missing term, wrong step) move occupations by > 1e-2",
    "XY runs on >= 4 atoms started from an excited product state are not compared (TDVP step error O(dt) at |U| dt ~ 1, decreasing with dt as measured: 4.3e-2, 1.8e-2, 6e-3, 2.8e-3 for dt = 10, 5, 2, 1)",
    "when max_bond_dim binds only normalisation and physical ranges are required",
    "any permutation is a legal answer of the (heuristic) qubit-order optimiser",
]
CHUNK = 1


def drives(kind, ph, n):
    if kind == "global":
        return {"pulses": [{"amp": ["const", 100, 4.0], "det": ["ramp", 100, -4.0, 5.0], "phase": ph}]}
    if kind == "twophase":
        return {
            "pulses": [
                {"amp": ["const", 60, 6.0], "det": ["const", 60, 0.0], "phase": ph},
                {"amp": ["ramp", 40, 6.0, 1.0], "det": ["const", 40, 2.0], "phase": ph + 1.3},
            ]
        }
    if kind == "gap":
        return {
            "pulses": [
                {"amp": ["const", 40, 6.0], "det": ["const", 40, 2.0], "phase": ph},
                {"delay": 20},
                {"amp": ["const", 40, 4.0], "det": ["const", 40, -3.0], "phase": ph + 0.4},
            ]
        }
    if kind == "slm_same":
        # two identical pulses: only the interaction matrix changes when the SLM mask ends
        return {
            "pulses": [
                {"amp": ["const", 50, 6.0], "det": ["const", 50, 1.0], "phase": ph},
                {"amp": ["const", 50, 6.0], "det": ["const", 50, 1.0], "phase": ph},
            ],
            "slm": [0] if n < 3 else [0, 2],
        }
    if kind == "phasejump":
        return {
            "pulses": [
                {"amp": ["const", 50, 6.0], "det": ["const", 50, 2.0], "phase": ph},
                {"amp": ["const", 50, 6.0], "det": ["const", 50, 2.0], "phase": ph + 1.3},
            ]
        }
    if kind == "dmm":
        w = ([1.0, 0.0, 0.45, 0.2] + [0.3] * n)[:n]
        return {
            "pulses": [{"amp": ["blackman", 100, 2.5], "det": ["const", 100, 1.0], "phase": ph}],
            "dmm": {"weights": w, "wfs": [["ramp", 60, 0.0, -8.0], ["const", 40, -3.0]]},
        }
    if kind == "local":
        return {
            "pulses": [{"amp": ["const", 100, 3.0], "det": ["const", 100, 1.5], "phase": ph}],
            "local_channel": {"target": n - 1},
            "extra": [{"amp": ["const", 80, 5.0], "det": ["const", 80, -2.0], "phase": 0.9, "ch": "loc"}],
        }
    if kind == "slm":
        return {
            "pulses": [
                {"amp": ["const", 40, 7.0], "det": ["const", 40, 0.0], "phase": ph},
                {"amp": ["const", 60, 4.0], "det": ["const", 60, 3.0], "phase": ph},
            ],
            "slm": [0] if n < 3 else [0, 2],
        }
    raise ValueError(kind)


def mk(shape, kind, basis, ph, cfg, perm=None, coords=None, dev="mock"):
    coords = coords or SHAPES[shape]
    n = len(coords)
    d = drives(kind, ph, n)
    spec = {"coords": coords, "device": dev, "basis": basis, "pulses": d["pulses"] + d.get("extra", [])}
    for k in ("dmm", "slm", "local_channel"):
        if k in d:
            spec[k] = d[k]
    if basis == "xy" and shape in ("bent3", "zig4"):
        spec["mag"] = [0.0, 1.0, 1.0]
    return {"spec": spec, "cfg": cfg, "perm": perm, "label": f"{shape}/{kind}/{basis}/ph{ph}"}


def _cfgs(tier):
    base = {"dt": 10, "eval": [0.0, 0.5, 1.0], "precision": 1e-8}
    out = [dict(base)]
    out.append(dict(base, dt=4, eval=[0.37, 1.0]))
    out.append(dict(base, precision=1e-5))
    out.append(dict(base, max_krylov_dim=12))
    out.append(dict(base, init="seeded"))
    out.append(dict(base, init="seeded", init_via="amplitudes_gr"))  # the same initial state, the basis spelled ("g", "r")
    # the same observables listed in reverse order (an observable that re-centres the shared state must not disturb the next one)
    out.append(dict(base, obs_order="reversed"))
    if tier == "thorough":
        out.append(dict(base, init="product:0110"))
        out.append(dict(base, dt=17))
        out.append(dict(base, interaction_cutoff=1.0))
        out.append(dict(base, max_bond_dim=2))
    return out


def bounds(tier, seed):
    return {
        "registers": ["pair", "bent3", "zig4"] + (["tri3", "rect4", "chain5", "chain6"] if tier == "thorough" else []),
        "drive_kinds": ["global", "twophase", "phasejump (same amplitude/detuning, phase jump)", "gap (idle delay between pulses)", "dmm", "local", "slm", "slm_same (identical pulses, only the interaction changes at the mask end)"],
        "basis": ["rydberg", "xy (global, twophase, slm)"],
        "phase": [0.0, 0.7],
        "configs": _cfgs(tier),
        "modulation": "virtual device with 8 MHz channels, with_modulation off / on, with and without reordering (pair, bent3)",
        "run_histories": "all ordered pairs of 8 runs differing in register / SLM / DMM / cutoff / ordering / basis, executed back to back in one process",
        "ordering": "off; on with every p in S_N for N <= 4 (drive kinds dmm, local, slm, global; base config); on with the real optimiser",
    }


def cases(tier, seed):
    shapes = ["pair", "bent3", "zig4"] + (["tri3", "rect4"] if tier == "thorough" else [])
    for shape in shapes:
        n = len(SHAPES[shape])
        for kind in ("global", "twophase", "phasejump", "gap", "dmm", "local", "slm", "slm_same"):
            for basis in ("rydberg", "xy"):
                if basis == "xy" and kind in ("dmm", "local"):
                    continue
                for ph in (0.0, 0.7):
                    for cfg in _cfgs(tier):
                        c = dict(cfg, seed=seed)
                        if c.get("init", "").startswith("product:"):
                            if basis == "xy" and n >= 4:
                                # excited product state under strong XY exchange (|U| dt ~ 1): the two-site TDVP step error is O(dt) there
                                # (measured 4.3e-2 at dt=10, 2.8e-3 at dt=1) - a property of the algorithm at that step size, outside this oracle
                                continue
                            c["init"] = "product:" + "0110"[:n]
                        yield mk(shape, kind, basis, ph, c)
    # channels with a finite modulation bandwidth, modulation on / off (the sequence gets longer by the fall time)
    for shape in ("pair", "bent3"):
        for kind in ("global", "twophase", "dmm", "local"):
            for mod in (False, True):
                for perm in (None, [1, 0] if shape == "pair" else [2, 0, 1]):
                    c = {"dt": 10, "eval": [0.37, 1.0], "precision": 1e-8, "with_modulation": mod, "seed": seed}
                    if perm:
                        c["ordering"] = True
                    yield mk(shape, kind, "rydberg", 0.7, c, perm=perm, dev="mod")
    # run histories (E2): run A, then run B in the same process; B is judged against its own oracle (all ordered pairs)
    hb = {"dt": 10, "eval": [0.37, 1.0], "precision": 1e-8, "seed": seed}
    hist = [
        mk("pair", "global", "rydberg", 0.7, dict(hb)),
        mk("pair", "slm", "rydberg", 0.7, dict(hb)),
        mk("bent3", "global", "rydberg", 0.7, dict(hb)),
        mk("bent3", "slm", "rydberg", 0.7, dict(hb)),
        mk("bent3", "dmm", "rydberg", 0.0, dict(hb)),
        mk("bent3", "global", "rydberg", 0.7, dict(hb, interaction_cutoff=1.0)),
        mk("bent3", "local", "rydberg", 0.7, dict(hb, ordering=True), perm=[2, 0, 1]),
        mk("bent3", "global", "xy", 0.7, dict(hb)),
    ]
    for i, a in enumerate(hist):
        for j, b in enumerate(hist):
            if i != j:
                c = dict(b, after={"spec": a["spec"], "cfg": a["cfg"], "perm": a.get("perm")})
                c["label"] = b["label"] + " after " + a["label"]
                yield c
    # every optimiser answer
    base = {"dt": 10, "eval": [0.5, 1.0], "precision": 1e-8, "ordering": True, "seed": seed}
    for shape in ["bent3", "zig4"] if tier == "quick" else ["pair", "bent3", "tri3", "zig4", "rect4"]:
        n = len(SHAPES[shape])
        for kind in ("dmm", "local", "slm", "global"):
            for basis in ("rydberg",) if kind != "slm" else ("rydberg", "xy"):
                for perm in itertools.permutations(range(n)):
                    for init in (None, "seeded") if kind == "dmm" else (None,):
                        c = dict(base)
                        if init:
                            c["init"] = init
                        yield mk(shape, kind, basis, 0.7, c, perm=list(perm))
                yield mk(shape, kind, basis, 0.7, dict(base), perm="real")
    if tier == "thorough":
        for nn in (5, 6):
            for kind in ("global", "dmm", "local", "slm"):
                yield mk(f"chain{nn}", kind, "rydberg", 0.7, {"dt": 10, "eval": [0.5, 1.0], "precision": 1e-8, "seed": seed}, coords=chain(nn))
                for perm in ([*range(nn)][::-1], [1, 0] + [*range(2, nn)], [*range(1, nn)] + [0]):
                    yield mk(f"chain{nn}", kind, "rydberg", 0.7, {"dt": 10, "eval": [0.5, 1.0], "precision": 1e-8, "ordering": True, "seed": seed}, perm=perm, coords=chain(nn))


@functools.lru_cache(maxsize=8)
def _ref(key, rule):
    d = json.loads(key)
    return runner.Ref(d["spec"], d["cfg"], slm_rule=rule)


def tolerance(n, cfg, nsteps, label=""):
    """truncation term (precision per truncation, ~2 per step and bond) + two-site-TDVP splitting term.
    The splitting term has no usable closed form; it is bounded per class by > 3x the largest error measured over the whole
    alphabet on the unchanged tree: 0 for N=2 (one two-site update is exact), 5e-5 for the weak drives (measured <= 3.1e-6),
    and for the strong 'slm' drive on 4 atoms 1e-3 (ising, measured 1.4e-4) resp. 1e-2 (XY, |U| dt ~ 1, measured 3.3e-3)."""
    trunc = 4 * nsteps * n * cfg.get("precision", 1e-8) + 1e-9
    if n == 2:
        return trunc
    if ("/slm/" in label or "/slm_same/" in label) and n >= 4:
        return trunc + (1e-2 if "/xy/" in label else 1e-3)
    if "/xy/" in label and n >= 4:
        return trunc + 1e-3  # strong exchange (|U| dt ~ 1): measured <= 3.3e-4 over the thorough alphabet
    return trunc + 5e-5


def run_case(case):
    spec, cfg = case["spec"], case["cfg"]
    n = len(spec["coords"])
    key = json.dumps({"spec": spec, "cfg": {k: v for k, v in cfg.items() if k in ("dt", "eval", "init", "seed", "interaction_cutoff", "with_modulation")}}, sort_keys=True)
    perm = case.get("perm")
    label = f"{case['label']} cfg={cfg} optimiser_answer={perm}"
    if case.get("after"):
        try:
            if case["after"].get("perm") is not None:
                with seams.optimiser_answer(case["after"]["perm"]):
                    runner.run_mps(case["after"]["spec"], case["after"]["cfg"])
            else:
                runner.run_mps(case["after"]["spec"], case["after"]["cfg"])
        except Exception:
            pass  # the earlier run is judged in its own case
    try:
        if perm is not None and perm != "real":
            with seams.optimiser_answer(perm) as calls:
                results, _ = runner.run_mps(spec, cfg)
            if not calls:
                return result(False, sig="harness|optimiser-not-consulted", msg=f"{label}: ordering on but optimiser not called", outcome="nocall")
        else:
            results, _ = runner.run_mps(spec, cfg)
    except Exception as e:
        return result(False, sig=f"raises|{type(e).__name__}", msg=f"MPSBackend.run raised {type(e).__name__}: {e} on {label}", outcome="raise")
    ids = [f"q{i}" for i in range(n)]
    if list(results.atom_order) != ids:
        return result(False, sig="atom_order", msg=f"{label}: atom_order {results.atom_order} != register order {ids}", outcome="order")
    ref = _ref(key, "mid")
    nsteps = len(ref.times) - 1
    capped = cfg.get("max_bond_dim", 1024) < 2 ** (n // 2)
    if capped:
        for t in cfg["eval"]:
            occ = runner.to_np(runner.get_at(results, "occupation", t))
            if occ.min() < -1e-9 or occ.max() > 1 + 1e-9:
                return result(False, sig="range|capped", msg=f"{label}: occupation out of range {occ}", outcome="range")
        return result(True, outcome=["capped"], nontrivial=False)
    tol = tolerance(n, cfg, nsteps, case['label'])
    bad = runner.compare_results(results, ref, cfg["eval"], tol, tol)
    if bad and ref.straddle:
        ref2 = _ref(key, "start")
        if not runner.compare_results(results, ref2, cfg["eval"], tol, tol):
            bad = []
    if bad:
        kind = "perm" if perm is not None else "plain"
        return result(False, sig=f"tight|{kind}|{bad[0].split(' ')[0].rstrip(':')}", msg=f"{label}: " + " ; ".join(bad[:4]), outcome="mismatch")
    final = ref.states[-1]
    moved = np.linalg.norm(final - ref.states[0]) > 1e-3
    return result(True, outcome=["ok", rnd(R.occupation(final, n), 4), nsteps], nontrivial=bool(moved), extra={"err": runner.WORST["obs"], "n": n})
