"""
T00 - toy property used only by `./check selftest` to exercise the driver itself: a tiny 'implementation' with module-level state.
TOY_MODE selects how it misbehaves: clean | plain (one case always fails) | order (a case fails only after another case ran in the
same process) | flaky (a case fails the first time it is executed and never again).
"""
import os

from mc.core import result

ID = "T00"
LEVEL = "model_checking"
ENGINE = "toy"
RULE = "toy"
ASSUMPTIONS = []
CHUNK = 40  # all cases go to ONE worker in index order: the order-dependent mode must not depend on the scheduler

_CACHE = {}  # the 'bug': state carried from one run to the next


def bounds(tier, seed):
    return {"n": 40}


def cases(tier, seed):
    for k in range(40):
        yield {"k": k}


def run_case(case):
    mode = os.environ.get("TOY_MODE", "clean")
    k = case["k"]
    if mode == "plain" and k == 17:
        return result(False, sig="toy|plain", msg="case 17 always fails", outcome="viol")
    if mode == "order":
        if k % 10 == 3:
            _CACHE["poisoned_by"] = k
        if k == 29 and "poisoned_by" in _CACHE:
            return result(False, sig="toy|order", msg=f"case 29 fails because case {_CACHE['poisoned_by']} ran before it in this process", outcome="viol")
    if mode == "flaky" and k == 5:
        marker = os.environ["TOY_MARKER"]
        if not os.path.exists(marker):  # fails the first time it is executed anywhere, never again
            open(marker, "w").close()
            return result(False, sig="toy|flaky", msg="verdict depends on something outside the process", outcome="viol")
    return result(True, outcome=["ok", k % 3])
