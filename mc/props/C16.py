"""
C16 - emu-sv open-system runs solve the Lindblad equation and stay physical.

E1: complete product register x drive x Lindbladian noise model (every type x rate, pairs, effective noise with every 2x2
matrix unit, sigma_z-type and a seeded complex operator) x dt x krylov_tolerance x initial state (None, pure product, mixed)
through the public SVBackend.run().  Oracle: vectorised-Liouvillian expm per step with PULSER's collapse operators
(lindblad_data), tolerance n_steps*10*tol + 1e-9; at every evaluation time rho = rho^dagger, tr rho = 1, lambda_min >= -1e-9,
and occupation / correlation / energy / second moment / variance equal tr(rho O) on the reference.
"""
import itertools
import json

import numpy as np

from mc import pulser_kit as kit
from mc import runner
from mc.core import result, rnd
from mc.ref import noise_ref
from mc.ref import pulser_ref as R

ID = "C16"
LEVEL = "model_checking"
ENGINE = "E1 small-scope product explorer over (register, drive, noise model, dt, krylov_tolerance, initial state)"
RULE = (
    "case = one point of the product in `bounds`; the real SVBackend.run() is executed; the density matrix and 5 observables at "
    "every evaluation time are compared with the Lindblad reference; distinct = distinct case dicts; non-trivial = reference purity at the end < 1 - 1e-4"
)
ASSUMPTIONS = [
    "collapse operators = Pulser's HamiltonianData.lindblad_data, one copy per atom (mc/ref/noise_ref.py)",
    "reference = scipy expm of the vectorised Liouvillian of the midpoint-PCHIP piecewise-constant Hamiltonian; stands in for QuTiP mesolve (not installed)",
    "energy observables use the Hermitian Hamiltonian of the step that just ended",
]
CHUNK = 1


def noises():
    def u(i, j):
        m = np.zeros((2, 2), dtype=complex)
        m[i, j] = 1
        return m

    out = {}
    for r in (0.05, 0.5, 3.0):
        out[f"relaxation@{r}"] = dict(relaxation_rate=r)
        out[f"dephasing@{r}"] = dict(dephasing_rate=r)
        out[f"depolarizing@{r}"] = dict(depolarizing_rate=r)
    out["relaxation+dephasing"] = dict(relaxation_rate=0.4, dephasing_rate=0.7)
    out["dephasing+depolarizing"] = dict(dephasing_rate=0.4, depolarizing_rate=0.6)
    out["all3"] = dict(relaxation_rate=0.3, dephasing_rate=0.2, depolarizing_rate=0.4)
    for i in range(2):
        for j in range(2):
            out[f"eff_E{i}{j}"] = dict(eff_noise_opers=[u(i, j)], eff_noise_rates=[0.8])
    out["eff_Z"] = dict(eff_noise_opers=[u(0, 0) - u(1, 1)], eff_noise_rates=[0.5])
    rs = np.random.RandomState(99)
    m = rs.normal(size=(2, 2)) + 1j * rs.normal(size=(2, 2))
    out["eff_seeded"] = dict(eff_noise_opers=[m], eff_noise_rates=[0.6])
    out["eff_two"] = dict(eff_noise_opers=[u(0, 1), u(1, 0)], eff_noise_rates=[0.3, 1.1])
    # a channel that is switched off (rate exactly 0) listed before / after an active one
    out["eff_zero_first"] = dict(eff_noise_opers=[u(0, 0) - u(1, 1), u(1, 0)], eff_noise_rates=[0.0, 0.4])
    out["eff_zero_last"] = dict(eff_noise_opers=[u(1, 0), u(0, 0) - u(1, 1)], eff_noise_rates=[0.4, 0.0])
    return out


DRIVES = {
    "const": [{"amp": ["const", 100, 5.0], "det": ["const", 100, 1.5], "phase": 0.0}],
    "phase": [{"amp": ["const", 100, 5.0], "det": ["ramp", 100, -4.0, 4.0], "phase": 0.8}],
    "blackman": [{"amp": ["blackman", 100, 2.5], "det": ["const", 100, -1.0], "phase": 0.0}],
    # identical amplitude and detuning in consecutive steps, only the phase changes
    "phasejump": [{"amp": ["const", 50, 5.0], "det": ["const", 50, 1.5], "phase": 0.0}, {"amp": ["const", 50, 5.0], "det": ["const", 50, 1.5], "phase": 1.3}],
    # phase exactly 0, then exactly pi (sin(phi) = 0 in every step, cos(phi) changes sign)
    "echo": [{"amp": ["const", 50, 5.0], "det": ["const", 50, 1.5], "phase": 0.0}, {"amp": ["const", 50, 5.0], "det": ["const", 50, 1.5], "phase": float(np.pi)}],
}


def _alph(tier):
    if tier == "quick":
        return dict(shape=["one", "pair"], drive=["const", "phase", "phasejump", "echo"], dt=[10], tol=[1e-10], init=[None, "mixed", "mixed_offtrace"])
    return dict(shape=["one", "pair", "bent3"], drive=list(DRIVES), dt=[10, 3], tol=[1e-10, 1e-6], init=[None, "product", "mixed", "mixed_offtrace", "mixed_x2"])


def bounds(tier, seed):
    b = _alph(tier)
    b["noise"] = list(noises())
    b["extra"] = "thorough: rect4 with 4 noise models; one 5-atom chain"
    return b


def cases(tier, seed):
    a = _alph(tier)
    for shape, drive, nz, dt, tol, init in itertools.product(a["shape"], a["drive"], noises(), a["dt"], a["tol"], a["init"]):
        yield {"shape": shape, "drive": drive, "noise": nz, "dt": dt, "tol": tol, "init": init, "seed": seed}
    if tier == "thorough":
        for nz in ("relaxation@0.5", "all3", "eff_seeded", "eff_E10"):
            yield {"shape": "rect4", "drive": "phase", "noise": nz, "dt": 10, "tol": 1e-10, "init": None, "seed": seed}
        yield {"shape": "chain5", "drive": "const", "noise": "relaxation@0.5", "dt": 20, "tol": 1e-10, "init": None, "seed": seed}


def _rho0(n, kind, seed):
    d = 2**n
    if kind == "product":
        v = runner.amplitudes_state(n, "product:" + ("10" * n)[:n])
        return np.outer(v, v.conj())
    rs = np.random.RandomState(31 + seed + n)
    a = rs.normal(size=(d, d)) + 1j * rs.normal(size=(d, d))
    rho = a @ a.conj().T
    return rho / np.trace(rho).real


def run_case(case):
    import logging

    import pulser
    import torch
    import emu_sv as sv

    coords = kit.chain(5) if case["shape"] == "chain5" else kit.SHAPES[case["shape"]]
    n = len(coords)
    spec = {"coords": coords, "device": "mock", "basis": "rydberg", "pulses": DRIVES[case["drive"]]}
    nm = pulser.NoiseModel(**noises()[case["noise"]])
    ev = [0.0, 0.5, 1.0]
    cfg = {"dt": case["dt"], "eval": ev, "krylov_tolerance": case["tol"]}
    label = f"{case['shape']}/{case['drive']} noise={case['noise']} dt={case['dt']} tol={case['tol']} init={case['init']}"
    rho0 = None
    seq = kit.build_sequence(spec)
    obs = runner.sv_observables(ev, n, with_state=True)
    import contextlib
    import io

    kw = {}
    if case["init"]:
        rho0 = _rho0(n, case["init"].split("_")[0], case["seed"])
        # the run is defined on the normalised state: a trace slightly (single-precision storage) or grossly off must not matter
        factor = {"mixed_offtrace": 1 + 4e-6, "mixed_x2": 2.0}.get(case["init"], 1.0)
        kw["initial_state"] = sv.DensityMatrix(torch.tensor(rho0 * factor, dtype=torch.complex128), gpu=False)
    try:
        config = sv.SVConfig(dt=case["dt"], krylov_tolerance=case["tol"], observables=obs, log_level=logging.CRITICAL, gpu=False, noise_model=nm, **kw)
        with contextlib.redirect_stdout(io.StringIO()):
            res = sv.SVBackend(seq, config=config).run()
    except Exception as e:
        return result(False, sig=f"raises|{type(e).__name__}", msg=f"{label}: {type(e).__name__}: {str(e)[:300]}", outcome="raise")
    ops, _, d, _ = noise_ref.collapse_ops_for(seq, nm)
    Ls = R.embed_all(ops, n, d)
    ref = runner.Ref(spec, cfg, slm_rule="mid", Ls=Ls, rho0=rho0)
    nsteps = len(ref.times) - 1
    tol_state = nsteps * 10 * case["tol"] + 1e-9
    tol_obs = 4 * tol_state + 1e-9
    for t in ev:
        st = runner.get_at(res, "state", t)
        rho = runner.to_np(st.data if hasattr(st, "data") else st.matrix)
        if rho.shape != (2**n, 2**n):
            return result(False, sig="state-shape", msg=f"{label}: state at t={t} has shape {rho.shape} (density matrix expected)", outcome="shape")
        herm = np.abs(rho - rho.conj().T).max()
        tr = np.trace(rho)
        lam = np.linalg.eigvalsh(0.5 * (rho + rho.conj().T)).min()
        if herm > 1e-9 or abs(tr - 1) > 1e-8 + tol_state or lam < -1e-8 - tol_state:
            return result(False, sig="unphysical", msg=f"{label}: rho at t={t}: |rho-rho^dag|={herm:.2e}, tr={tr:.10f}, lambda_min={lam:.2e}", outcome="unphys")
    bad = runner.compare_results(res, ref, ev, tol_state, tol_obs, state_getter=lambda s: runner.to_np(s.data if hasattr(s, "data") else s.matrix))
    if bad:
        return result(False, sig=f"lindblad|{bad[0].split(' ')[0].rstrip(':')}", msg=f"{label}: " + " ; ".join(bad[:4]), outcome="mismatch")
    rf = ref.states[-1]
    purity = float(np.real(np.trace(rf @ rf)))
    return result(True, outcome=["ok", rnd(R.occupation(rf, n), 4), round(purity, 4)], nontrivial=purity < 1 - 1e-4)
