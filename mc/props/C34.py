"""
C34 - multi-trajectory results aggregate all simulated trajectories.

E3: the shot-to-shot randomness is owned by the explorer: Pulser's draws (bad-atom masks, amplitude / detuning fluctuations, register
displacements) are scripted, and EVERY sequence of bad-atom masks of length n_trajectories (n <= 3) is enumerated, besides the other
noise kinds for n_trajectories in 1..5 (thorough: 8, 20).  The backend's per-trajectory entry point is wrapped (harness-level) so that the
Results of every single simulation are captured.
Oracle: exactly n_trajectories simulations ran; every MEAN-aggregated observable equals the arithmetic mean of the captured values; the
bitstring Counter is the bag union of the captured Counters with total n_trajectories x shots; times and atom order are preserved.
"""
import contextlib
import io
import itertools
import logging
from collections import Counter

import numpy as np

from mc import pulser_kit as kit
from mc import runner, seams
from mc.core import result, rnd

ID = "C34"
LEVEL = "model_checking"
ENGINE = "E3 environment-answer explorer: every scripted sequence of Pulser's shot-to-shot draws x n_trajectories x shots x backend, differential oracle on the captured per-trajectory results"
RULE = (
    "case = (backend, noise kind, n_trajectories, draw script, shots); one real multi-trajectory run; states = distinct cases; "
    "non-trivial = at least two captured trajectories differ"
)
ASSUMPTIONS = [
    "per-trajectory results are captured by wrapping <Backend>._run_from_sequence_data (the documented per-trajectory entry point used by the tests)",
    "Pulser's own aggregation semantics (MEAN for occupation/correlation/energy, BAG_UNION for bitstrings) are taken from the observables' declared methods",
    "emu-mps SPAM masks are restricted to those leaving >= 2 good atoms (fewer: recorded C25 finding)",
]
CHUNK = 1


def bounds(tier, seed):
    return {
        "n_trajectories": [1, 2, 3, 4, 5, 33] + ([8, 20, 40] if tier == "thorough" else []),
        "noise": ["none", "relaxation (trajectory-invariant)", "SPAM: every mask sequence (n<=3)", "amplitude: z-alphabet {-1.5, 0, 2}", "register: displacement alphabet", "detuning"],
        "shots": [1, 7, 100],
        "backends": ["sv", "mps"],
    }


def _rerun_case(case):
    """error path: a run() that raises inside its k-th trajectory (the caller catches it), then run() again on the SAME backend object -
    the second run must aggregate exactly its own trajectories (compared with a fresh backend object)"""
    import pulser
    import emu_mps as m
    import emu_sv as sv
    import emu_mps.mps_backend_impl as impl_mod

    be, n, k_fail = case["backend"], case["n"], case["fail_at"]
    mod = sv if be == "sv" else m
    coords = kit.SHAPES["pair"] if be == "sv" else kit.SHAPES["bent3"]
    spec = {"coords": coords, "device": "mock", "basis": "rydberg", "pulses": [{"amp": ["const", 40, 20.0], "det": ["const", 40, 5.0], "phase": 0.2}]}
    seq = kit.build_sequence(spec)
    label = " ".join(f"{k}={v}" for k, v in case.items())
    zs = [[-1.5, 0.0, 2.0][(k + n) % 3] for k in range(n)]
    nm = pulser.NoiseModel(amp_sigma=0.2)
    obs = [mod.Occupation(evaluation_times=[1.0]), mod.BitStrings(evaluation_times=[1.0], num_shots=5)]
    backend_cls = sv.SVBackend if be == "sv" else m.MPSBackend
    orig = backend_cls.__dict__["_run_from_sequence_data"]

    def make():
        if be == "sv":
            return sv.SVBackend(seq, config=sv.SVConfig(dt=10, observables=obs, n_trajectories=n, log_level=logging.CRITICAL, gpu=False, noise_model=nm))
        return m.MPSBackend(seq, config=m.MPSConfig(dt=10, precision=1e-8, observables=obs, n_trajectories=n, log_level=logging.CRITICAL, num_gpus_to_use=0, noise_model=nm))

    def run(backend, fail_at=None):
        calls = [0]

        def wrapper(sequence_data, config):
            i = calls[0]
            calls[0] += 1
            if fail_at is not None and i == fail_at:
                raise RuntimeError("injected failure inside a trajectory (e.g. a user observable that raises)")
            return orig.__func__(sequence_data, config)

        try:
            backend_cls._run_from_sequence_data = staticmethod(wrapper)
            with contextlib.redirect_stdout(io.StringIO()), seams.pulser_np_random(normal=[[z] for z in zs]), seams.torch_multinomial(seams.ScriptedMultinomial(answer_fn=_first)):
                return backend.run()
        finally:
            backend_cls._run_from_sequence_data = orig

    try:
        fresh = run(make())
        b = make()
        try:
            run(b, fail_at=k_fail)
            return result(False, sig="harness|failure-not-delivered", msg=f"{label}: the injected failure did not reach the caller", outcome="nofail")
        except RuntimeError:
            pass
        again = run(b)
    except Exception as e:
        return result(False, sig=f"raises|rerun|{be}|{type(e).__name__}", msg=f"{label}: {type(e).__name__}: {str(e)[:300]}", outcome="raise")
    o1 = np.real(runner.to_np(runner.get_at(fresh, "occupation", 1.0))).astype(float)
    o2 = np.real(runner.to_np(runner.get_at(again, "occupation", 1.0))).astype(float)
    s1, s2 = sum(runner.get_at(fresh, "bitstrings", 1.0).values()), sum(runner.get_at(again, "bitstrings", 1.0).values())
    if np.abs(o1 - o2).max() > 1e-10 or s1 != s2 or s2 != 5 * n:
        return result(False, sig=f"rerun-after-failure|{be}", msg=f"{label}: run() after a run that failed in trajectory {k_fail}: occupation {np.round(o2, 6).tolist()} with {s2} shots, a fresh backend gives {np.round(o1, 6).tolist()} with {s1} shots", outcome="stale")
    return result(True, outcome=["rerun", be, n, k_fail, rnd(o1, 5)], transitions=3 * n, nontrivial=True)


def _first(probs, num_samples, k):
    p = probs.detach().cpu().numpy().astype(float)
    if p.ndim == 1:
        return [int(np.flatnonzero(p > 1e-14 * p.sum())[0])] * num_samples
    return [[int(np.flatnonzero(r > 1e-14 * r.sum())[0])] * num_samples for r in p]


def cases(tier, seed):
    for be in ("sv", "mps"):
        for n in (2, 3):
            for k_fail in range(1, n):
                yield {"family": "rerun", "backend": be, "n": n, "fail_at": k_fail}
    ns = [1, 2, 3, 4, 5] + ([8, 20, 40] if tier == "thorough" else [])
    for be in ("sv", "mps"):
        natoms = 2 if be == "sv" else 3
        masks = [m for m in itertools.product((0, 1), repeat=natoms) if natoms - sum(m) >= (0 if be == "sv" else 2)]
        for n in (1, 2, 3):
            if tier == "quick" and be == "mps" and n == 3:
                continue
            for seqm in itertools.product(range(len(masks)), repeat=n):
                for shots in (7,) if n == 3 else (1, 7):
                    yield {"backend": be, "noise": "SPAM", "n": n, "script": [list(masks[i]) for i in seqm], "shots": shots}
                if n == 2:
                    # the same with a user-supplied interaction matrix (one object shared by all trajectories)
                    yield {"backend": be, "noise": "SPAM", "n": n, "script": [list(masks[i]) for i in seqm], "shots": 1, "custom_matrix": True}
        # many trajectories (more than any internal batching / folding size such as 32): only cheap shot-to-shot noise
        yield {"backend": be, "noise": "amplitude", "n": 33, "script": [[-1.5, 0.0, 2.0][k % 3] * (1 + k / 40) for k in range(33)], "shots": 1}
        for n in ns:
            for noise in ("none", "relaxation", "amplitude", "detuning", "register", "eff_noise_only", "same_jumps"):
                if be == "mps" and noise == "relaxation" and n > 3:
                    continue
                if tier == "quick" and be == "mps" and n == 4:
                    continue
                if noise == "same_jumps":
                    if be == "mps" and n in (2, 3):
                        yield {"backend": be, "noise": noise, "n": n, "script": [], "shots": 0}
                    continue
                if noise == "eff_noise_only":
                    if be == "mps" and n <= 3:
                        yield {"backend": be, "noise": noise, "n": n, "script": [], "shots": 0}
                    continue
                for shots in (1, 7, 100):
                    if shots == 100 and n > (2 if tier == "quick" else 3):
                        continue
                    zs = [[-1.5, 0.0, 2.0][(k + n) % 3] for k in range(n)]
                    yield {"backend": be, "noise": noise, "n": n, "script": zs, "shots": shots}


def run_case(case):
    import pulser
    import torch
    import emu_mps as m
    import emu_sv as sv
    import emu_mps.mps_backend_impl as impl_mod

    if case.get("family") == "rerun":
        return _rerun_case(case)
    be, noise, n, shots = case["backend"], case["noise"], case["n"], case["shots"]
    mod = sv if be == "sv" else m
    coords = kit.SHAPES["pair"] if be == "sv" else kit.SHAPES["bent3"]
    natoms = len(coords)
    spec = {"coords": coords, "device": "mock", "basis": "rydberg", "pulses": [{"amp": ["const", 40, 20.0], "det": ["const", 40, 5.0], "phase": 0.2}]}
    seq = kit.build_sequence(spec)
    label = " ".join(f"{k}={v}" for k, v in case.items())
    ev = [0.5, 1.0]
    nm = None
    script = {}
    if noise == "SPAM":
        nm = pulser.NoiseModel(state_prep_error=0.3, p_false_pos=0.0, p_false_neg=0.0)
        script = {"uniform": [seams.bad_mask_uniform(mk) for mk in case["script"]]}
    elif noise == "relaxation":
        nm = pulser.NoiseModel(relaxation_rate=0.5)
    elif noise == "amplitude":
        nm = pulser.NoiseModel(amp_sigma=0.2)
        script = {"normal": [[z] for z in case["script"]]}
    elif noise == "detuning":
        nm = pulser.NoiseModel(detuning_sigma=2.0)
        script = {"normal": [[z] for z in case["script"] for _ in range(2)]}
    elif noise == "same_jumps":
        nm = pulser.NoiseModel(relaxation_rate=30.0)  # strong decay: with threshold 0.9 every trajectory jumps early
    elif noise == "eff_noise_only":
        op = np.array([[0, 1], [0, 0]], dtype=complex)  # Pulser order (r, g): |r><g|, an excitation channel
        nm = pulser.NoiseModel(eff_noise_opers=[op], eff_noise_rates=[8.0])
    elif noise == "register":
        nm = pulser.NoiseModel(temperature=50.0, trap_waist=1.0, trap_depth=150.0, disable_doppler=True)
        script = {"normal": [[z * 0.5, -z, 0.3 * z] for z in case["script"] for _ in range(2)]}
    obs = [mod.Occupation(evaluation_times=ev), mod.CorrelationMatrix(evaluation_times=[1.0]), mod.Energy(evaluation_times=ev)] + ([mod.BitStrings(evaluation_times=[1.0], num_shots=shots)] if shots else [])
    kw = {"noise_model": nm} if nm is not None else {}
    if case.get("custom_matrix"):
        U = np.full((natoms, natoms), 9.0)
        np.fill_diagonal(U, 0.0)
        kw["interaction_matrix"] = U.tolist()
    backend_cls = sv.SVBackend if be == "sv" else m.MPSBackend
    captured = []
    orig = backend_cls.__dict__["_run_from_sequence_data"]

    def recorder(sequence_data, config):
        r = orig.__func__(sequence_data, config)
        captured.append(r)
        return r

    torch.manual_seed(4242)
    import random as _random

    try:
        backend_cls._run_from_sequence_data = staticmethod(recorder)
        with contextlib.redirect_stdout(io.StringIO()), seams.pulser_np_random(**script):
            if be == "sv":
                cfg = sv.SVConfig(dt=10, observables=obs, n_trajectories=n, log_level=logging.CRITICAL, gpu=False, **kw)
                res = sv.SVBackend(seq, config=cfg).run()
            else:
                cfg = m.MPSConfig(dt=10, precision=1e-8, observables=obs, n_trajectories=n, log_level=logging.CRITICAL, num_gpus_to_use=0, **kw)
                # jump thresholds differ from trajectory to trajectory (0.9 -> early jump, 0.1 -> none, ...): the trajectories are distinguishable
                rng_script = seams.ScriptedRandom(default_uniform=0.9, default_choice=0) if noise == "same_jumps" else seams.ScriptedRandom(uniforms=[0.9, 0.5, 0.1, 0.7, 0.3, 0.8, 0.2, 0.6, 0.4, 0.95, 0.05] * 3, default_uniform=0.35, default_choice=0)
                with seams.module_random(impl_mod, rng_script):
                    res = m.MPSBackend(seq, config=cfg).run()
    except Exception as e:
        return result(False, sig=f"raises|{be}|{noise}|{type(e).__name__}", msg=f"{label}: {type(e).__name__}: {str(e)[:300]}", outcome="raise")
    finally:
        backend_cls._run_from_sequence_data = orig
    if noise == "SPAM" and n == 2 and len(captured) == n:
        # every trajectory on its own (fresh run, same mask) must give what it gave inside the multi-trajectory run
        for k, mk in enumerate(case["script"]):
            solo = []

            def rec2(sequence_data, config, _solo=solo):
                r = orig.__func__(sequence_data, config)
                _solo.append(r)
                return r

            try:
                backend_cls._run_from_sequence_data = staticmethod(rec2)
                with contextlib.redirect_stdout(io.StringIO()), seams.pulser_np_random(uniform=[seams.bad_mask_uniform(mk)]):
                    if be == "sv":
                        sv.SVBackend(seq, config=sv.SVConfig(dt=10, observables=obs, n_trajectories=1, log_level=logging.CRITICAL, gpu=False, **kw)).run()
                    else:
                        with seams.module_random(impl_mod, seams.ScriptedRandom(default_uniform=0.35, default_choice=0)):
                            m.MPSBackend(seq, config=m.MPSConfig(dt=10, precision=1e-8, observables=obs, n_trajectories=1, log_level=logging.CRITICAL, num_gpus_to_use=0, **kw)).run()
            except Exception:
                solo = []
            finally:
                backend_cls._run_from_sequence_data = orig
            # trajectories are grouped by mask inside the run: find the captured one with this mask through its occupation pattern
            if solo:
                o_solo = np.real(runner.to_np(runner.get_at(solo[0], "occupation", 1.0))).astype(float)
                cands = [np.real(runner.to_np(runner.get_at(c, "occupation", 1.0))).astype(float) for c in captured]
                if min(np.abs(c - o_solo).max() for c in cands) > 1e-9:
                    return result(False, sig=f"trajectory-depends-on-others|{be}", msg=f"{label}: the trajectory with bad-atom mask {mk} gives occupation {np.round(o_solo, 6).tolist()} when run alone, but no trajectory of the multi-trajectory run does: {[np.round(c, 6).tolist() for c in cands]}", outcome="leak")
    if noise == "same_jumps" and len(captured) == n:
        # every trajectory received the same random answers: they must be the same trajectory (nothing may carry over from one to the next)
        if not any(e[0] == "choices" for e in rng_script.log):
            return result(False, sig="harness|no-jump", msg=f"{label}: the scripted trajectories contain no jump", outcome="nojump")
        o0 = np.real(runner.to_np(runner.get_at(captured[0], "occupation", 1.0))).astype(float)
        for k, c in enumerate(captured[1:], start=2):
            ok_ = np.real(runner.to_np(runner.get_at(c, "occupation", 1.0))).astype(float)
            if not np.abs(ok_ - o0).max() <= 1e-9:  # NaN fails
                return result(False, sig="trajectory-depends-on-earlier-ones|mps", msg=f"{label}: trajectory {k} got the same random answers as trajectory 1 but ends with occupation {np.round(ok_, 6).tolist()} instead of {np.round(o0, 6).tolist()}", outcome="carry")
    if len(captured) != n:
        return result(False, sig=f"count|{be}|{noise}", msg=f"{label}: {len(captured)} simulations ran for n_trajectories={n}", outcome="count")
    ids = tuple(seq.register.qubit_ids)
    if tuple(res.atom_order) != ids:
        return result(False, sig="atom_order", msg=f"{label}: aggregated atom_order {res.atom_order}", outcome="order")
    differ = False
    for tag, times in (("occupation", ev), ("correlation_matrix", [1.0]), ("energy", ev)):
        got_times = list(res.get_result_times(tag))
        if len(got_times) != len(times) or any(abs(a - b) > 1e-9 for a, b in zip(got_times, times)):
            return result(False, sig=f"times|{tag}", msg=f"{label}: aggregated {tag} times {got_times} != {times}", outcome="times")
        for t in times:
            vals = [np.real(runner.to_np(runner.get_at(c, tag, t))).astype(float) for c in captured]
            mean = np.mean(vals, axis=0)
            got = np.real(runner.to_np(runner.get_at(res, tag, t))).astype(float)
            differ = differ or any(np.abs(v - vals[0]).max() > 1e-9 for v in vals)
            if not np.abs(got - mean).max() <= 1e-10 * max(1.0, np.abs(mean).max()):  # NaN fails
                return result(False, sig=f"mean|{be}|{tag}", msg=f"{label}: aggregated {tag} at t={t} is {np.round(got, 8).tolist()} but the mean of the {n} trajectories is {np.round(mean, 8).tolist()}", outcome="mean")
    if not shots:
        return result(True, outcome=["ok-nobits", n, rnd(np.real(runner.to_np(runner.get_at(res, "occupation", 1.0))), 4)], transitions=n, nontrivial=bool(differ))
    bag = Counter()
    for c in captured:
        bag.update(runner.get_at(c, "bitstrings", 1.0))
    got = runner.get_at(res, "bitstrings", 1.0)
    if sum(got.values()) != n * shots:
        return result(False, sig=f"shots|{be}", msg=f"{label}: aggregated bitstring count {sum(got.values())} != n_trajectories x shots = {n * shots}", outcome="shots")
    if Counter(got) != bag:
        return result(False, sig=f"bag|{be}", msg=f"{label}: aggregated bitstrings {dict(got)} != union of the trajectories {dict(bag)}", outcome="bag")
    if any(len(b) != natoms for b in got):
        return result(False, sig="bitstring-length", msg=f"{label}: bitstring of wrong length in {dict(got)}", outcome="len")
    return result(True, outcome=["ok", n, rnd(np.real(runner.to_np(runner.get_at(res, "occupation", 1.0))), 4)], transitions=n, nontrivial=bool(differ))
