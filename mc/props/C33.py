"""
C33 - configuration safeguards are always applied.

E1: complete products over configuration alphabets: precision x extra_krylov_tolerance; autosave_dt
values around the 10 s safeguard (incl. nan/inf/negative); ALL 2^10 subsets of the ten observable
kinds (with and without tag_suffix) x optimize_qubit_ordering; solver x every noise type (config
noise model, device noise model) through the public MPSBackend.run and create_impl.
"""
import itertools
import logging
import math

import numpy as np

from mc.core import result

ID = "C33"
LEVEL = "model_checking"
ENGINE = "E1 small-scope product explorer over configuration alphabets (all 2^10 observable subsets)"
RULE = (
    "case = one configuration family slice; every point of the product is constructed with the real "
    "MPSConfig (and run through MPSBackend / create_impl for the solver x noise family); non-trivial = "
    "configuration differs from the defaults"
)
ASSUMPTIONS = ["the whitelist of un-permutable observables is taken from the documentation: state, fidelity, expectation, entanglement entropy cannot be un-permuted"]
CHUNK = 1

PRECS = [1e-2, 1e-3, 1e-5, 1e-6, 1e-8, 1e-10, 1e-12, 1e-14]
EXTRA = [1.0, 1e-3, 1e-8, 1e-12]
AUTOSAVE = [-1.0, 0.0, 5.0, 10.0, 10.0001, 11.0, 1e9, "inf", "nan"]
KINDS = ["bitstrings", "occupation", "correlation_matrix", "energy", "energy_variance", "energy_second_moment", "state", "fidelity", "expectation", "entanglement_entropy"]
UNPERMUTABLE = {"state", "fidelity", "expectation", "entanglement_entropy"}
NOISES = ["relaxation", "dephasing", "depolarizing", "eff_noise", "state_prep", "readout", "amplitude", "detuning", "doppler", "leakage"]


def bounds(tier, seed):
    return {"precision": PRECS, "extra_krylov_tolerance": EXTRA, "autosave_dt": AUTOSAVE, "observable_kinds": KINDS, "noise_types": NOISES, "solvers": ["tdvp", "dmrg"]}


def cases(tier, seed):
    yield {"family": "krylov"}
    yield {"family": "autosave"}
    for suffix in (False, True):
        for ordering in (True, False):
            for hi in range(8):
                yield {"family": "observables", "suffix": suffix, "ordering": ordering, "hi": hi}
    for noise in NOISES:
        for where in ("config", "device"):
            yield {"family": "dmrg", "noise": noise, "where": where}


def _obs(kind, suffix):
    import emu_mps as m
    import torch

    sfx = {"tag_suffix": "v"} if suffix else {}
    ev = {"evaluation_times": [1.0]}
    if kind == "bitstrings":
        return m.BitStrings(**ev, **sfx)
    if kind == "occupation":
        return m.Occupation(**ev, **sfx)
    if kind == "correlation_matrix":
        return m.CorrelationMatrix(**ev, **sfx)
    if kind == "energy":
        return m.Energy(**ev, **sfx)
    if kind == "energy_variance":
        return m.EnergyVariance(**ev, **sfx)
    if kind == "energy_second_moment":
        return m.EnergySecondMoment(**ev, **sfx)
    if kind == "state":
        return m.StateResult(**ev, **sfx)
    if kind == "fidelity":
        return m.Fidelity(m.MPS.make(2), **ev, **sfx)
    if kind == "expectation":
        op = m.MPO.from_operator_repr(eigenstates=("r", "g"), n_qudits=2, operations=[(1.0, [({"rr": 1.0}, {0})])])
        return m.Expectation(op, **ev, **sfx)
    return m.EntanglementEntropy(0, **ev, **sfx)


def _noise(kind):
    from pulser import NoiseModel

    return {
        "relaxation": lambda: NoiseModel(relaxation_rate=0.1),
        "dephasing": lambda: NoiseModel(dephasing_rate=0.1),
        "depolarizing": lambda: NoiseModel(depolarizing_rate=0.1),
        "eff_noise": lambda: NoiseModel(eff_noise_rates=(0.1,), eff_noise_opers=(np.array([[0, 1], [0, 0.0]]),)),
        "state_prep": lambda: NoiseModel(state_prep_error=0.1),
        "readout": lambda: NoiseModel(p_false_pos=0.1, p_false_neg=0.05),
        "amplitude": lambda: NoiseModel(amp_sigma=0.1),
        "detuning": lambda: NoiseModel(detuning_sigma=0.1),
        "doppler": lambda: NoiseModel(temperature=50.0),
        "leakage": lambda: NoiseModel(
            eff_noise_rates=(0.1,), eff_noise_opers=(np.array([[0, 0, 0], [0, 0, 0], [1.0, 0, 0]]),), with_leakage=True
        ),
    }[kind]()


def run_case(case):
    import emu_mps as m

    fam = case["family"]
    quiet = dict(log_level=logging.CRITICAL)
    n = 0
    if fam == "krylov":
        outs = []
        # every configuration is built three times in this process (a history, not a single call: the safeguard must hold for EVERY
        # construction, e.g. a sweep over max_bond_dim with the same tolerances)
        for (p, e), rep in itertools.product(itertools.product(PRECS, EXTRA), range(3)):
            n += 1
            extra_kw = {} if rep < 2 else {"max_bond_dim": 17}
            cfg = m.MPSConfig(precision=p, extra_krylov_tolerance=e, **extra_kw, **quiet)
            eff = cfg.precision * cfg.extra_krylov_tolerance
            if not eff >= 1e-12 * (1 - 1e-12):
                return result(False, sig="krylov-tolerance-floor", msg=f"precision={p}, extra_krylov_tolerance={e} (construction #{rep + 1} with these values in this process): effective tolerance {eff} < 1e-12", outcome="viol")
            if p * e >= 1e-12 and cfg.extra_krylov_tolerance != e:
                return result(False, sig="krylov-tolerance-changed", msg=f"precision={p}, extra={e} (product above the floor) but extra_krylov_tolerance became {cfg.extra_krylov_tolerance}", outcome="viol")
            if cfg.precision != p:
                return result(False, sig="precision-changed", msg=f"precision {p} -> {cfg.precision}", outcome="viol")
            if rep == 0:
                outs.append(round(math.log10(eff), 3))
        return result(True, outcome=outs, states=n, transitions=n)
    if fam == "autosave":
        outs = []
        for a in AUTOSAVE:
            n += 1
            val = float(a)
            try:
                cfg = m.MPSConfig(autosave_dt=val, **quiet)
                accepted = True
            except Exception:
                accepted = False
            should_accept = val > 10 and not math.isnan(val)
            if accepted != should_accept:
                return result(False, sig=f"autosave-dt|{a}", msg=f"autosave_dt={a}: accepted={accepted}, but the safeguard requires accepted={should_accept}", outcome="viol")
            if accepted and not (cfg.autosave_dt == val):
                return result(False, sig="autosave-dt-changed", msg=f"autosave_dt={a} stored as {cfg.autosave_dt}", outcome="viol")
            outs.append(accepted)
        return result(True, outcome=outs, states=n, transitions=n)
    if fam == "observables":
        outs = []
        for mask in range(case["hi"] * 128, (case["hi"] + 1) * 128):
            kinds = [k for i, k in enumerate(KINDS) if mask >> i & 1]
            obs = [_obs(k, case["suffix"]) for k in kinds]
            n += 1
            cfg = m.MPSConfig(observables=obs, optimize_qubit_ordering=case["ordering"], **quiet)
            expect = case["ordering"] and not (set(kinds) & UNPERMUTABLE)
            if bool(cfg.optimize_qubit_ordering) != expect:
                return result(
                    False,
                    sig=f"ordering|{'+'.join(sorted(set(kinds) & UNPERMUTABLE)) or 'permutable-only'}",
                    msg=f"observables {kinds} (tag_suffix={case['suffix']}), requested optimize_qubit_ordering={case['ordering']}: config has {cfg.optimize_qubit_ordering}, expected {expect}",
                    outcome="viol",
                )
            if len(cfg.observables) != len(kinds):
                return result(False, sig="observables-lost", msg=f"{kinds}: config holds {len(cfg.observables)} observables", outcome="viol")
            outs.append(int(cfg.optimize_qubit_ordering))
            # histories: configurations derived from the first one (the very same observable objects): built again, changed, serialised
            unperm = bool(set(kinds) & UNPERMUTABLE)
            derived = [
                ("rebuilt from cfg.observables", lambda: m.MPSConfig(observables=cfg.observables, optimize_qubit_ordering=case["ordering"], **quiet), expect),
                ("with_changes(optimize_qubit_ordering=True)", lambda: cfg.with_changes(optimize_qubit_ordering=True), not unperm),
                ("with_changes(dt=7)", lambda: cfg.with_changes(dt=7), expect),
                ("abstract-repr round trip", lambda: m.MPSConfig.from_abstract_repr(cfg.to_abstract_repr()), expect),
            ]
            for how, build, want in derived:
                try:
                    c2 = build()
                except Exception:
                    continue  # e.g. pulser refuses to serialise a state observable: no configuration, nothing to check
                n += 1
                if bool(c2.optimize_qubit_ordering) != want:
                    return result(
                        False,
                        sig=f"ordering|derived|{'+'.join(sorted(set(kinds) & UNPERMUTABLE)) or 'permutable-only'}",
                        msg=f"observables {kinds} (tag_suffix={case['suffix']}), first config requested ordering={case['ordering']}; configuration derived by '{how}' has optimize_qubit_ordering={c2.optimize_qubit_ordering}, expected {want}",
                        outcome="viol",
                    )
        return result(True, outcome=outs, states=n, transitions=n, nontrivial=True)
    # dmrg x noise
    import dataclasses

    import pulser

    from mc import pulser_kit as kit

    nm = _noise(case["noise"])
    dev = kit.mod_device()
    kw = {}
    if case["where"] == "device":
        dev = dataclasses.replace(dev, default_noise_model=nm)
        kw["prefer_device_noise_model"] = True
    else:
        kw["noise_model"] = nm
    reg = pulser.Register({"a": np.array([0.0, 0.0]), "b": np.array([7.0, 0.0])})
    seq = pulser.Sequence(reg, dev)
    seq.declare_channel("ch", "rydberg_global")
    seq.add(pulser.Pulse.ConstantPulse(40, 3.0, 0.5, 0.0), "ch")
    outs = []
    for route, how in itertools.product(("run", "create_impl"), ("enum", "string", "round-trip", "with_changes")):
        try:
            if how == "enum":
                cfg = m.MPSConfig(solver=m.Solver.DMRG, observables=[m.Occupation(evaluation_times=[1.0])], **kw, **quiet)
            elif how == "string":  # the documented spelling
                cfg = m.MPSConfig(solver="dmrg", observables=[m.Occupation(evaluation_times=[1.0])], **kw, **quiet)
            elif how == "with_changes":
                cfg = m.MPSConfig(observables=[m.Occupation(evaluation_times=[1.0])], **kw, **quiet).with_changes(solver=m.Solver.DMRG)
            else:
                try:
                    cfg = m.MPSConfig.from_abstract_repr(m.MPSConfig(solver=m.Solver.DMRG, observables=[m.Occupation(evaluation_times=[1.0])], **kw, **quiet).to_abstract_repr())
                except Exception:
                    outs.append("no-round-trip")
                    continue
                if cfg.solver != m.Solver.DMRG:
                    return result(False, sig="solver-lost-in-round-trip", msg=f"solver after an abstract-repr round trip: {cfg.solver!r}", outcome="viol")
            if route == "run":
                m.MPSBackend(seq, config=cfg).run()
            else:
                from emu_base import PulserData
                from emu_mps.mps_backend_impl import create_impl

                data = next(iter(PulserData(sequence=seq, config=cfg, dt=cfg.dt).get_sequences()))
                if case["noise"] in ("readout",):
                    outs.append("n/a")
                    continue
                if case["where"] == "device" and case["noise"] in ("amplitude", "detuning", "doppler"):
                    # shot-to-shot noise is invisible at the level of one SequenceData; the public route decides
                    outs.append("n/a")
                    continue
                create_impl(data, cfg)
            return result(
                False,
                sig=f"dmrg-accepts-noise|{case['noise']}|{case['where']}|{route}" + ("" if how == "enum" else f"|{how}"),
                msg=f"DMRG solver (given as {how}) with {case['noise']} noise from the {case['where']} did not refuse ({route})",
                outcome="viol",
            )
        except (NotImplementedError, ValueError, AssertionError) as e:
            outs.append(type(e).__name__)
    return result(True, outcome=outs, states=2, transitions=2)
