"""
C20 - PCHIP interpolation is exact at knots, C1 and shape-preserving.

E1: complete product  (number of knots) x (all spacing sequences over a spacing alphabet) x (ALL
value sequences over a value alphabet) x (query set: knots, quarter points, points outside the
range) on the real PCHIP1D.  Oracles: SciPy's PchipInterpolator (the standard Fritsch-Carlson /
three-point-end-slope algorithm, extrapolating from the end intervals), knot exactness, C1 at
interior knots (autograd derivative from both sides), monotone and bounded on every interval.
"""
import itertools

import numpy as np
import torch
from scipy.interpolate import PchipInterpolator

from mc.core import result

ID = "C20"
LEVEL = "model_checking"
ENGINE = "E1 small-scope product explorer: all spacing sequences x all value sequences"
RULE = (
    "case = (n knots, spacing sequence, first value); inside a case every value sequence over the value "
    "alphabet is enumerated (transitions = PCHIP1D constructions+evaluations); states = distinct (spacing, "
    "values) inputs; non-trivial = not all values equal"
)
ASSUMPTIONS = [
    "SciPy's PchipInterpolator is the 'standard PCHIP' the property names",
    "float64 only; agreement tolerance 1e-10 x max|y| x (extrapolation distance / h_min)^3",
]
CHUNK = 1

SPACINGS = [1.0, 2.0, 0.5]
VALUES = [0.0, 1.0, -1.0, 2.0, 1e6, 1e-6]


def _ns(tier):
    return [2, 3, 4] if tier == "quick" else [2, 3, 4, 5, 6]


def bounds(tier, seed):
    return {
        "knots": _ns(tier),
        "spacing_alphabet": SPACINGS,
        "value_alphabet": VALUES,
        "n=6": "thorough only, value alphabet restricted to {0,1,-1,2}",
        "x_units": "n in {3,4}: all spacing sequences x all value sequences over {0,1,-1,2} with x scaled by 1e-9 / 1e6 / 1e-3 (and offset), and nearly uniform grids (relative drift 8e-6, 5e-7, 1e-9)",
        "structured": "n in {50,500}: sine, sawtooth, steps, seeded walk, on uniform and non-uniform grids",
        "queries": "knots, 1/4 1/2 3/4 points of every interval, x0-0.5, x0-3, xn+0.5, xn+3, 16 sub-points per interval for shape",
    }


def cases(tier, seed):
    for n in _ns(tier):
        vals = VALUES if n <= 5 else VALUES[:4]
        for sp in itertools.product(SPACINGS, repeat=n - 1):
            for v0 in vals:
                yield {"family": "product", "n": n, "spacing": list(sp), "v0": v0, "values": vals}
    # units of the x axis: the interpolant must not depend on them (times in seconds with ns spacing, large offsets); nearly uniform grids
    for n in (3, 4):
        for sp in itertools.product(SPACINGS, repeat=n - 1):
            for unit, off in ((1e-9, 0.0), (1e-9, 5e-9), (1e6, 0.0), (1e-3, 1.0)):
                yield {"family": "scaled", "n": n, "spacing": list(sp), "unit": unit, "offset": off, "values": VALUES[:4]}
        for drift in (8e-6, 5e-7, 1e-9):
            yield {"family": "scaled", "n": n, "spacing": [1.0 + k * drift for k in range(n - 1)], "unit": 1.0, "offset": 0.0, "values": VALUES[:4]}
    # histories: the caller keeps using (and changing in place) the value tensor it built the interpolant from
    for n in (2, 3, 4):
        for sp in itertools.product(SPACINGS, repeat=n - 1):
            yield {"family": "history", "n": n, "spacing": list(sp), "values": VALUES[:4]}
    for n in (50, 500):
        for shape in ("sine", "saw", "steps", "walk", "flatends"):
            for grid in ("uniform", "nonuniform"):
                yield {"family": "structured", "n": n, "shape": shape, "grid": grid, "seed": seed}


def _check_one(x, y, unit=1.0):
    """returns (error message or None).  unit = length scale of the x axis (the query points outside the range scale with it)."""
    from emu_base.math.pchip_torch import PCHIP1D

    xt = torch.tensor(x, dtype=torch.float64)
    yt = torch.tensor(y, dtype=torch.float64)
    p = PCHIP1D(xt, yt)
    n = len(x)
    h = np.diff(x)
    hmin = h.min()
    scale = max(np.abs(y).max(), 1e-300)
    inner = []
    for i in range(n - 1):
        inner += [x[i] + f * h[i] for f in (0.25, 0.5, 0.75)]
    outside = [x[0] - 0.5 * unit, x[0] - 3.0 * unit, x[-1] + 0.5 * unit, x[-1] + 3.0 * unit]
    q = np.array(list(x) + inner + outside)
    got = p(torch.tensor(q, dtype=torch.float64)).numpy()
    if not np.all(np.isfinite(got)):
        return f"non-finite interpolant values {got}"
    # 1. exact at knots
    kn = got[:n]
    # exactly representable grids reproduce the data bit for bit; on other grids the last knot is reached through the cubic of the last interval (a few ulps)
    if np.abs(kn - y).max() > (4e-16 if unit == 1.0 and np.all(h == np.round(h * 2) / 2) else 1e-14) * scale:
        return f"not exact at knots: {kn.tolist()} vs {list(y)}"
    # 2. equals standard PCHIP (SciPy), inside and extrapolated
    if n == 2:
        ref = y[0] + (q - x[0]) * (y[1] - y[0]) / h[0]
    else:
        ref = PchipInterpolator(x, y, extrapolate=True)(q)
    amp = np.maximum(1.0, np.maximum(x[0] - q, q - x[-1]) / hmin + 1.0) ** 3
    err = np.abs(got - ref) / (amp * scale)
    if not err.max() <= 1e-10:  # NaN fails
        k = int(err.argmax())
        return f"differs from standard PCHIP at x={q[k]}: got {got[k]!r} ref {ref[k]!r}"
    # 3. C1 at interior knots
    if n > 2:
        xr = torch.tensor(x[1:-1], dtype=torch.float64, requires_grad=True)
        xl = torch.tensor(np.nextafter(x[1:-1], -np.inf), dtype=torch.float64, requires_grad=True)
        (gr,) = torch.autograd.grad(p(xr).sum(), xr)
        (gl,) = torch.autograd.grad(p(xl).sum(), xl)
        vl = p(xl).detach().numpy()
        if np.abs(vl - y[1:-1]).max() > 1e-12 * scale / min(1.0, hmin / unit):
            return f"discontinuous at an interior knot: left limit {vl.tolist()} vs {list(y[1:-1])}"
        dd = np.abs(gr.numpy() - gl.numpy()).max()
        if not dd <= 1e-9 * scale / hmin:  # NaN fails
            return f"derivative jumps at an interior knot: right {gr.tolist()} left {gl.tolist()}"
    # 4. monotone and bounded on every interval
    sub = np.linspace(0.0, 1.0, 17)
    for i in range(n - 1):
        xs = x[i] + sub * h[i]
        ys = p(torch.tensor(xs, dtype=torch.float64)).numpy()
        lo, hi = min(y[i], y[i + 1]), max(y[i], y[i + 1])
        tolb = 1e-12 * scale
        if ys.min() < lo - tolb or ys.max() > hi + tolb:
            return f"overshoot on interval {i}: values in [{ys.min()!r},{ys.max()!r}] outside [{lo},{hi}]"
        d = np.diff(ys)
        if (d.max() > tolb and d.min() < -tolb):
            return f"not monotone on interval {i}: {ys.tolist()}"
    return None


def _structured(case):
    n, shape, seed = case["n"], case["shape"], case["seed"]
    r = np.random.RandomState(seed + n)
    if case["grid"] == "uniform":
        x = np.arange(n, dtype=float)
    else:
        x = np.cumsum(np.array([SPACINGS[(i * i + i // 3) % 3] for i in range(n)]))
    t = np.arange(n)
    if shape == "sine":
        y = 3.0 * np.sin(t / 3.1)
    elif shape == "saw":
        y = (t % 7).astype(float) - 3
    elif shape == "steps":
        y = (t // 5 % 3).astype(float) * 2.5
    elif shape == "walk":
        y = np.cumsum(r.choice([-1.0, 0.0, 0.0, 1.0, 5.0], size=n))
    else:
        y = np.concatenate([[2.0, 2.0], 1.5 * np.cos(t[2:-2] / 2.0), [-1.0, -1.0]])
    return x, y


HIST_OPS = ["scale", "set_first", "reverse", "set_last"]


def _history_case(case):
    """build from tensors, then let the caller change the value tensor in place (every sequence of <= 2 changes): after each change the
    object must still be ONE interpolant - that of the data it was built from (what the code does) or that of the tensor's current content."""
    from emu_base.math.pchip_torch import PCHIP1D

    n, sp, vals = case["n"], case["spacing"], case["values"]
    x = np.concatenate([[0.0], np.cumsum(sp)])
    inner = [x[i] + f * (x[i + 1] - x[i]) for i in range(n - 1) for f in (0.25, 0.5, 0.75)]
    q = np.array(list(x) + inner + [x[0] - 0.5, x[-1] + 0.5])
    qt = torch.tensor(q, dtype=torch.float64)

    def ref(y):
        if n == 2:
            return y[0] + (q - x[0]) * (y[1] - y[0]) / (x[1] - x[0])
        return PchipInterpolator(x, y, extrapolate=True)(q)

    count = 0
    for y0 in itertools.product(vals, repeat=n):
        if len(set(y0)) == 1:
            continue
        for hist in [h for d in (1, 2) for h in itertools.product(HIST_OPS, repeat=d)]:
            xt = torch.tensor(x, dtype=torch.float64)
            yt = torch.tensor(y0, dtype=torch.float64)
            p = PCHIP1D(xt, yt)
            built = ref(np.array(y0))
            for k, op in enumerate(hist):
                if op == "scale":
                    yt.mul_(-0.5)
                elif op == "set_first":
                    yt[0] += 3.0
                elif op == "set_last":
                    yt[-1] -= 2.0
                else:
                    yt.copy_(yt.flip(0).clone())
                count += 1
                got = p(qt).numpy()
                live = ref(yt.numpy().copy())
                scale = max(1.0, np.abs(built).max(), np.abs(live).max())
                if min(np.abs(got - built).max(), np.abs(got - live).max()) > 1e-10 * scale:
                    return result(
                        False,
                        sig=f"history|after={op}",
                        msg=f"after the caller changed its value tensor in place ({list(hist[: k + 1])}) the object is neither the interpolant of the data it was built from nor of the current data: "
                        f"x={x.tolist()} y0={list(y0)} y_now={yt.tolist()} got={got.tolist()}",
                        outcome="viol",
                    )
    return result(True, outcome=["history", n, count], states=count, transitions=count, nontrivial=True)


def run_case(case):
    if case["family"] == "history":
        return _history_case(case)
    if case["family"] == "structured":
        x, y = _structured(case)
        err = _check_one(x, y)
        if err:
            return result(False, sig=f"structured|{case['shape']}|{err.split(':')[0][:40]}", msg=f"{err} ({case})", outcome="viol")
        return result(True, outcome=[case["shape"], case["n"], case["grid"]], transitions=1)
    n, sp, vals = case["n"], case["spacing"], case["values"]
    unit = case.get("unit", 1.0)
    x = case.get("offset", 0.0) + unit * np.concatenate([[0.0], np.cumsum(sp)])
    count = 0
    nontriv = 0
    firsts = [case["v0"]] if "v0" in case else vals
    for first, rest in itertools.product(firsts, itertools.product(vals, repeat=n - 1)):
        y = np.array((first,) + rest)
        count += 1
        nontriv += int(len(set(y.tolist())) > 1)
        err = _check_one(x, y, unit)
        if err:
            kind = err.split(":")[0][:40]
            flat_first = n > 2 and (y[0] == y[1] != y[2] or y[-1] == y[-2] != y[-3])
            return result(
                False,
                sig=f"{kind}|{'flat-end-interval' if flat_first else 'other'}" + ("|x-units" if case["family"] == "scaled" else ""),
                msg=f"x={x.tolist()} y={y.tolist()}: {err}",
                outcome="viol",
                states=count,
                transitions=count,
            )
    return result(True, outcome=["ok", n, count], states=count, transitions=count, nontrivial=nontriv > 0)
