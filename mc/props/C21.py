"""
C21 - the simulation time grid covers the sequence and every evaluation time.

E1: complete product duration x dt x evaluation-time set x modulation on real Pulser sequences
through the real PulserData / get_sequences (and, for short grids, the real backends, counting
solver steps through the statistics observable); trajectory counts for n_trajectories x noise.
"""
import itertools
import logging

import numpy as np

from mc import pulser_kit as kit
from mc.core import result

ID = "C21"
LEVEL = "model_checking"
ENGINE = "E1 small-scope product explorer over (duration, dt, evaluation-time set, modulation, n_trajectories, noise)"
RULE = (
    "case = (duration, modulation) -> inside: every dt of the alphabet x every evaluation-time set (all subsets "
    "of size <= k of the time alphabet, which contains grid points +-1 ulp, 0.1+0.2 and the last half ns); "
    "states = distinct (duration, dt, times) inputs; non-trivial = grid has more than one step"
)
ASSUMPTIONS = ["two target times closer than 1e-9 x duration count as duplicates (the property says strictly increasing grid)"]
CHUNK = 1

DTS = [0.1, 0.25, 0.3, 0.5, 1, 2, 3, 7, 10, 16, "T", "T+1", "2T", 1e5]


def _durations(tier):
    return list(range(1, 41)) + [97, 100, 999, 1000] + ([10000] if tier == "thorough" else [])


def bounds(tier, seed):
    return {
        "durations": "1..40, 97, 100, 999, 1000" + (", 10000" if tier == "thorough" else ""),
        "dt": DTS,
        "eval_alphabet": "0, 1/3, 0.37, 0.5, k*dt/T, nextafter(k*dt/T, +-), 0.1+0.2, (T-0.5)/T, 1",
        "eval_subset_size": 2 if tier == "quick" else 3,
        "modulation": [False, True],
        "n_trajectories": [1, 2, 3, 4, 5],
        "noise": ["none", "SPAM", "amplitude", "relaxation"],
    }


def cases(tier, seed):
    for T in _durations(tier):
        for mod in (False, True):
            yield {"family": "grid", "T": T, "mod": mod, "k": 2 if tier == "quick" else 3}
    for T, dt in ((20, 10), (20, 3), (37, 7), (5, 0.5), (10, 25)):
        for backend in ("sv", "mps", "dmrg"):
            yield {"family": "steps", "T": T, "dt": dt, "backend": backend}
    for ntraj in range(1, 6):
        for noise in ("none", "SPAM", "amplitude", "relaxation"):
            yield {"family": "traj", "n": ntraj, "noise": noise, "seed": seed}


def _seq(T, dev):
    spec = {"coords": kit.SHAPES["pair"], "device": dev, "pulses": [{"amp": ["const", T, 2.0], "det": ["const", T, 0.5], "phase": 0.0}]}
    return kit.build_sequence(spec)


def _eval_alphabet(T, dt):
    k = max(1, int((T / dt) // 2))
    g = min(k * dt / T, 1.0)
    vals = [0.0, 1 / 3, 0.37, 0.5, g, float(np.nextafter(g, 2.0)) if g < 1 else g, float(np.nextafter(g, -1.0)), 0.1 + 0.2, max(0.0, (T - 0.5) / T), 1.0]
    # just inside the window within which the grid treats two times as one (1e-10 of the duration): next to a grid point, next to time 0
    g1 = dt / T if dt < T else g
    vals += [g1 + 5e-11, 5e-11]
    # chains around a grid point whose links are shorter than the merge window while the ends are further apart than it
    vals += [g1 - 1.4e-10, g1 - 0.7e-10, g1 + 0.7e-10]
    out = []
    for v in vals:
        if 0.0 <= v <= 1.0 and v not in out:
            out.append(v)
    return out


def _check_grid(seq, T_expected, dt, ev, mod, config_cls, obs_cls, all_default=False):
    from emu_base import PulserData

    # Pulser refuses times closer than 1e-12 inside one observable: hand such twins to two observables
    first, second, third = [], [], []
    for e in ev:
        for bucket in (first, second, third):
            if not any(abs(e - f) <= 1e-12 for f in bucket):
                bucket.append(e)
                break
        else:
            raise AssertionError("more than three mutually indistinguishable times")
    import emu_sv

    kw = {}
    if all_default and not second:
        # no observable brings its own times: every requested time comes from the config default
        observables = [obs_cls(evaluation_times=None), emu_sv.CorrelationMatrix(evaluation_times=None)]
        kw["default_evaluation_times"] = first
    elif len(first) >= 2 and not second:
        # an observable following the config default (first time) listed BEFORE one that brings its own times: both sets must reach the grid
        observables = [obs_cls(evaluation_times=None), emu_sv.CorrelationMatrix(evaluation_times=first[1:])]
        kw["default_evaluation_times"] = first[:1]
    else:
        observables = [obs_cls(evaluation_times=first)] + ([emu_sv.CorrelationMatrix(evaluation_times=second)] if second else []) + ([emu_sv.Energy(evaluation_times=third)] if third else [])
    cfg = config_cls(dt=dt, observables=observables, with_modulation=mod, log_level=logging.CRITICAL, **kw)
    pd = PulserData(sequence=seq, config=cfg, dt=dt)
    tt = list(pd.target_times)
    T = float(seq.get_duration(include_fall_time=mod))
    tag = f"duration={T} dt={dt} eval={list(ev)} mod={mod}" + (" (config default times only)" if all_default else "")
    if tt[0] != 0.0:
        return f"{tag}: grid starts at {tt[0]!r}"
    if tt[-1] != T:
        return f"{tag}: grid ends at {tt[-1]!r}, duration is {T!r}"
    d = np.diff(tt)
    if not np.all(d > 0):
        return f"{tag}: grid not strictly increasing: {tt}"
    if d.min() <= 1e-12 * T:
        i = int(d.argmin())
        return f"{tag}: near-duplicate target times {tt[i]!r}, {tt[i + 1]!r}"
    arr = np.array(tt)
    for i in range(int(np.floor(T / dt + 1e-12)) + 1):
        if i * dt <= T and np.abs(arr - i * dt).min() > 1e-9 * T:
            return f"{tag}: multiple {i}*dt = {i * dt} missing from the grid"
    for e in ev:
        # "contains": within the tolerance with which the backends match a step end to a requested time (1e-10 of the duration) - a requested
        # time further than that from every grid time is never reported
        if np.abs(arr - e * T).min() > 1e-10 * T * (1 + 1e-6):
            return f"{tag}: evaluation time {e!r} (t={e * T}) missing from the grid (nearest grid time {arr[np.abs(arr - e * T).argmin()]!r})"
    sds = list(pd.get_sequences())
    if len(sds) != 1:
        return f"{tag}: {len(sds)} trajectories for a noiseless run"
    sd = sds[0]
    for name in ("omega", "delta", "phi"):
        if getattr(sd, name).shape[0] != len(tt) - 1:
            return f"{tag}: {name} has {getattr(sd, name).shape[0]} rows for {len(tt) - 1} intervals"
    if list(sd.target_times) != tt:
        return f"{tag}: SequenceData.target_times differ from PulserData.target_times"
    return None


def run_case(case):
    import emu_mps
    import emu_sv

    fam = case["family"]
    if fam == "grid":
        T, mod = case["T"], case["mod"]
        seq = _seq(T, "mod" if mod else "mock")
        Tm = float(seq.get_duration(include_fall_time=mod))
        n = 0
        nontrivial = 0
        for dts in DTS:
            dt = {"T": Tm, "T+1": Tm + 1, "2T": 2 * Tm}.get(dts, dts)
            if Tm / dt > 20000:
                continue
            alph = _eval_alphabet(Tm, dt)
            sets = [()] + [c for k in range(1, case["k"] + 1) for c in itertools.combinations(alph, k)]
            for ev in sets:
                ev = tuple(sorted(ev)) or (1.0,)
                n += 1
                try:
                    err = _check_grid(seq, Tm, dt, ev, mod, emu_sv.SVConfig, emu_sv.Occupation)
                    if not err and len(ev) <= 2:
                        n += 1
                        err = _check_grid(seq, Tm, dt, ev, mod, emu_sv.SVConfig, emu_sv.Occupation, all_default=True)
                except Exception as e:
                    err = f"duration={Tm} dt={dt} eval={list(ev)} mod={mod}: PulserData raised {type(e).__name__}: {e}"
                if err:
                    kind = "near-duplicate" if "near-duplicate" in err else ("raises" if "raised" in err else err.split(": ", 1)[1].split(" ")[0])
                    return result(False, sig=f"grid|{kind}", msg=err, outcome="viol", states=n, transitions=n)
                nontrivial += Tm / dt > 1
        return result(True, outcome=["grid", T, mod, n], states=n, transitions=n, nontrivial=nontrivial > 0)
    if fam == "steps":
        T, dt = case["T"], case["dt"]
        seq = _seq(T, "mock")
        ev = [0.0, 0.37, 1.0]
        if case["backend"] == "sv":
            cfg = emu_sv.SVConfig(dt=dt, observables=[emu_sv.Occupation(evaluation_times=ev)], log_level=logging.CRITICAL, gpu=False)
            res = emu_sv.SVBackend(seq, config=cfg).run()
        else:
            kw = {"solver": emu_mps.Solver.DMRG} if case["backend"] == "dmrg" else {}
            cfg = emu_mps.MPSConfig(dt=dt, observables=[emu_mps.Occupation(evaluation_times=ev)], log_level=logging.CRITICAL, num_gpus_to_use=0, optimize_qubit_ordering=False, **kw)
            res = emu_mps.MPSBackend(seq, config=cfg).run()
        from emu_base import PulserData

        tt = PulserData(sequence=seq, config=cfg, dt=dt).target_times
        steps = len(res.get_result_times("statistics"))
        if steps != len(tt) - 1:
            return result(False, sig=f"steps|{case['backend']}", msg=f"{case}: {steps} solver steps for {len(tt) - 1} grid intervals", outcome="viol")
        st = res.get_result_times("statistics")
        want = [t / tt[-1] for t in tt[1:]]
        if any(abs(a - b) > 1e-12 for a, b in zip(st, want)):
            return result(False, sig=f"steps-times|{case['backend']}", msg=f"{case}: steps end at {st}, grid is {want}", outcome="viol")
        return result(True, outcome=["steps", steps], transitions=steps)
    # trajectories
    import pulser

    noise = {
        "none": None,
        "SPAM": pulser.NoiseModel(state_prep_error=0.4),
        "amplitude": pulser.NoiseModel(amp_sigma=0.1),
        "relaxation": pulser.NoiseModel(relaxation_rate=0.1),
    }[case["noise"]]
    seq = _seq(20, "mock")
    np.random.seed(case["seed"] + 11 * case["n"])
    from emu_base import PulserData

    kw = {"noise_model": noise} if noise is not None else {}
    cfg = emu_sv.SVConfig(dt=10, observables=[emu_sv.Occupation(evaluation_times=[1.0])], n_trajectories=case["n"], log_level=logging.CRITICAL, **kw)
    pd = PulserData(sequence=seq, config=cfg, dt=10)
    want = sum(s.reps for s in pd.hamiltonian.noisy_samples)
    got = len(list(pd.get_sequences()))
    if got != want or want != case["n"]:
        return result(False, sig=f"trajectories|{case['noise']}", msg=f"n_trajectories={case['n']} noise={case['noise']}: {got} simulations yielded, Pulser requests {want}", outcome="viol")
    return result(True, outcome=["traj", case["n"], case["noise"], got], transitions=got)
