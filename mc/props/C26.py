"""
C26 - resuming from an autosave gives the same results as an uninterrupted run.

E4: a real MPSBackend.run() is executed with a fake clock that fires an autosave at progress() call k and a process death right after
that autosave; then the real MPSBackend.resume(advertised file) finishes the run.  EVERY k of the run is a crash point (TDVP: every sweep
position of every time step; DMRG: every two-site minimisation; noisy: every iteration of the jump-time search, with the scripted RNG
continuing across the crash), for qubit ordering {off, on with EVERY non-identity optimiser answer}, per-atom drives, and two consecutive
crash / resume cycles.  Oracle: results (values, times, atom order, scripted bitstrings) equal those of the uninterrupted run; the
autosave file is gone after completion.
"""
import itertools
import logging

import numpy as np

from mc import autosave as A
from mc import pulser_kit as kit
from mc import seams
from mc.core import result, rnd
from mc.props.C02 import drives

ID = "C26"
LEVEL = "fault_enumeration"
ENGINE = "E4 crash-point enumerator: process death after the autosave of every progress() call, real resume, differential oracle against the uninterrupted run"
RULE = (
    "case = (solver path, drive, optimiser answer); inside: the uninterrupted run, then one crash+resume per progress() call k (and chained double "
    "crashes at (k, k+2)); evaluations = crash points explored; non-trivial = the crash point lies strictly inside the run"
)
ASSUMPTIONS = [
    "a crash is process death right after save_simulation returned (torn files are C27's subject)",
    "the noisy path uses a scripted random source (thresholds / jump choices from a fixed list) that keeps its position across the crash, so 'same distribution' becomes 'same trajectory'",
    "wall-clock statistics are not compared",
]
CHUNK = 1
EXHAUSTIVE = True


def bounds(tier, seed):
    return {
        "paths": ["tdvp", "dmrg", "noisy (relaxation, scripted thresholds with one jump)"],
        "registers": ["pair (special-cased 2-site stepping)", "bent3"] + (["zig4"] if tier == "thorough" else []),
        "drives": ["dmm (per-atom)", "local"],
        "ordering": "off; on with every non-identity p in S_3 (S_4 generators for zig4)",
        "crash_points": "every progress() call of the run; double crash (k, then 2 calls later) for every k; thorough: double crashes at distances 0, 1, 3 as well",
        "interrupts": "bent3: an exception delivered when entering ANY inner call of the stepping code (pair evolution, energy minimisation, bath updates), autosave after every step, then resume",
        "time_steps": 3,
    }


def cases(tier, seed):
    shapes = ["pair", "bent3"] + (["zig4"] if tier == "thorough" else [])
    for shape in shapes:
        n = len(kit.SHAPES[shape])
        perms = [None] + [list(p) for p in itertools.permutations(range(n)) if list(p) != list(range(n))]
        if n == 4:
            perms = [None, [3, 2, 1, 0], [1, 0, 2, 3], [0, 2, 1, 3], [1, 2, 3, 0]]
        if n == 3:
            # an SLM mask that ends inside a time step (14 ns with dt = 10): rebuilding anything at resume must use the same matrix as the running simulation
            for p in (None, [2, 0, 1]):
                yield {"path": "tdvp", "shape": shape, "kind": "slm_offgrid", "perm": p}
            # a badly prepared atom (two active qubits + dark-atom padding in the snapshot), with and without reordering; XY exchange
            for p in (None, [2, 0, 1]):
                yield {"path": "tdvp", "shape": shape, "kind": "dmm", "perm": p, "spam": [0, 1, 0]}
            yield {"path": "tdvp", "shape": shape, "kind": "global", "perm": None, "xy": True}
        if n == 3:
            # interrupts in the MIDDLE of a step (an exception such as KeyboardInterrupt reaching the caller), autosave after every step
            for path in ("tdvp", "dmrg", "noisy"):
                for p in (None, [2, 0, 1]):
                    yield {"path": path, "shape": shape, "kind": "dmm", "perm": p, "interrupts": True}
        for path in ("tdvp", "dmrg", "noisy"):
            for kind in ("dmm", "local"):
                if n == 2 and kind == "local":
                    continue
                for p in perms:
                    if path != "tdvp" and p not in (None, perms[1]):
                        continue
                    yield {"path": path, "shape": shape, "kind": kind, "perm": p, "tier": tier}


def _setup(case):
    import pulser
    import emu_mps as m

    n = len(kit.SHAPES[case["shape"]])
    if case["kind"] == "slm_offgrid":
        spec = {"coords": kit.SHAPES[case["shape"]], "device": "mock", "basis": "rydberg", "slm": [0, 2],
                "pulses": [{"amp": ["const", 14, 30.0], "det": ["const", 14, 0.0], "phase": 0.0}, {"amp": ["const", 16, 20.0], "det": ["const", 16, 5.0], "phase": 0.0}]}
        d = None
    else:
        d = drives(case["kind"], 0.7, n)
    # shorten to 3 time steps of 10 ns
    def short(w):
        w = list(w)
        w[1] = 30 if w[0] != "comp" else w[1]
        return w

    pulses = []
    for p in (d["pulses"] + d.get("extra", [])) if d else []:
        q = dict(p)
        q["amp"], q["det"] = short(p["amp"]), short(p["det"])
        q["amp"][1] = q["det"][1] = 30
        if "ch" in q:
            q["protocol"] = "no-delay"
        pulses.append(q)
    if d is not None:
        spec = {"coords": kit.SHAPES[case["shape"]], "device": "mock", "basis": "xy" if case.get("xy") else "rydberg", "pulses": pulses}
    d = d or {}
    if "dmm" in d:
        spec["dmm"] = dict(d["dmm"], wfs=[["ramp", 30, 0.0, -8.0]])
    if "local_channel" in d:
        spec["local_channel"] = d["local_channel"]
    if case["path"] == "noisy":
        for p in spec["pulses"]:
            p["amp"] = ["const", 30, 60.0]  # fast Rabi flopping so that the decay channel acts within 30 ns
    seq = kit.build_sequence(spec)
    ev = [1 / 3, 2 / 3, 1.0]

    def config():
        # BitStrings takes its shot count from the config (a non-default default_num_shots must survive the snapshot)
        obs = [m.Occupation(evaluation_times=ev), m.CorrelationMatrix(evaluation_times=[1.0]), m.Energy(evaluation_times=ev), m.BitStrings(evaluation_times=[2 / 3, 1.0])]
        kw = {"default_num_shots": 7}
        if case["path"] == "dmrg":
            kw["solver"] = m.Solver.DMRG
        if case["path"] == "noisy":
            kw["noise_model"] = pulser.NoiseModel(relaxation_rate=40.0)
        if case.get("spam"):
            kw["noise_model"] = pulser.NoiseModel(state_prep_error=0.3, p_false_pos=0.0, p_false_neg=0.0)
        if case.get("xy"):
            kw["initial_state"] = m.MPS.from_state_amplitudes(eigenstates=("r", "g"), amplitudes={"rgg": 1.0})
        return m.MPSConfig(dt=10, precision=1e-9, observables=obs, optimize_qubit_ordering=case["perm"] is not None, autosave_dt=A.AUTOSAVE_DT, log_level=logging.CRITICAL, num_gpus_to_use=0, **kw)

    def rng():
        if case["path"] != "noisy":
            return None
        return seams.ScriptedRandom(uniforms=[0.9, 0.5, 0.2, 0.7, 0.3, 0.6, 0.4, 0.8], choices=[0, 1, 0, 2, 1, 0], default_uniform=0.05, default_choice=0)

    return seq, config, rng


def _np_script(case):
    return {"uniform": [seams.bad_mask_uniform(case["spam"])]} if case.get("spam") else None


def run_case(case):
    import os

    seq, config, rng = _setup(case)
    label = " ".join(f"{k}={v}" for k, v in case.items())
    evaluations = 0
    nontrivial = 0
    with A.scratch_dir() as wd:
        s0 = A.Session(wd, rng=rng(), optimiser=case["perm"], np_script=_np_script(case))
        status, res = s0.run(seq, config())
        if status != "done":
            return result(False, sig="harness|baseline-crashed", msg=f"{label}: uninterrupted run ended with {status}: {res}", outcome="base")
        base = A.results_digest(res)
        total = s0.progress_calls_total
        jumps = sum(1 for e in (s0.rng.log if s0.rng else []) if e[0] == "choices")
        if case["path"] == "noisy" and jumps == 0:
            return result(False, sig="harness|no-jump", msg=f"{label}: the scripted trajectory contains no quantum jump", outcome="nojump")
        leftovers = [f for f in os.listdir(wd)]
        if leftovers:
            return result(False, sig="leftover-file|uninterrupted", msg=f"{label}: files left after an uninterrupted run: {leftovers}", outcome="left")
        if case.get("interrupts"):
            sc = A.Session(wd, save_calls="all", rng=rng(), optimiser=case["perm"], np_script=_np_script(case), count_inner=True)
            status, res = sc.run(seq, config())
            if status != "done" or A.compare_digests(base, A.results_digest(res)):
                return result(False, sig="harness|nondeterministic", msg=f"{label}: run with an autosave after every step differs from the plain run ({status})", outcome="nd")
            inner = sc.inner_calls
            resumed = 0
            for j in range(inner):
                s1 = A.Session(wd, save_calls="all", rng=rng(), optimiser=case["perm"], np_script=_np_script(case), interrupt_at=j)
                status, info = s1.run(seq, config())
                evaluations += 1
                if status != "crashed":
                    return result(False, sig="harness|interrupt-not-delivered", msg=f"{label}: interrupt at inner call {j} of {inner}: run ended with {status}", outcome="nd")
                path = s1.autosave_file
                if path is None or not os.path.isfile(path):
                    for f in os.listdir(wd):
                        os.remove(os.path.join(wd, f))
                    continue  # interrupted before the first snapshot: nothing to resume from
                s2 = A.Session(wd, rng=s1.rng)
                status3, final = s2.resume(path)
                resumed += 1
                if status3 != "done":
                    return result(False, sig=f"resume-failed|{case['path']}|interrupt", msg=f"{label}: interrupted inside a step (inner call {j} of {inner}), resume ended with {status3}: {final}", outcome="resfail")
                d = A.compare_digests(base, A.results_digest(final))
                if d:
                    return result(False, sig=f"resume-differs|{case['path']}|interrupt|{d.split(':')[0].split(' ')[0]}", msg=f"{label}: interrupted inside a step (inner call {j} of {inner}), resumed results differ from the uninterrupted run: {d}", outcome="diff", states=evaluations, transitions=evaluations)
                left = os.listdir(wd)
                if left:
                    return result(False, sig="leftover-file|resumed", msg=f"{label}: files left after the resumed run finished: {left}", outcome="left")
            occ = base["occupation"][1][-1].real
            return result(True, outcome=["interrupts", inner, resumed, rnd(occ, 4)], states=evaluations, transitions=evaluations, nontrivial=resumed > 0, extra={"evaluations": evaluations})
        plans = [(k,) for k in range(total)] + [(k, 2) for k in range(0, max(total - 3, 0))]
        if case.get("tier") == "thorough":
            plans += [(k, j) for k in range(0, max(total - 2, 0)) for j in (0, 1, 3) if k + j + 1 < total]
        for plan in plans:
            k = plan[0]
            s1 = A.Session(wd, save_calls=[k], crash_after_save_call=k, rng=rng(), optimiser=case["perm"], np_script=_np_script(case))
            status, info = s1.run(seq, config())
            evaluations += 1
            if status == "done":
                # the run finished before the crash point could fire (autosave at the very last call is removed right away)
                d = A.compare_digests(base, A.results_digest(info))
                if d:
                    return result(False, sig="harness|nondeterministic", msg=f"{label}: run with an autosave at call {k} but no crash differs: {d}", outcome="nd")
                continue
            path = s1.autosave_file
            if path is None or not os.path.isfile(path):
                return result(False, sig=f"missing-autosave|{case['path']}", msg=f"{label}: crash after the autosave of progress call {k}: advertised file {path} does not exist", outcome="missing")
            rng2 = s1.rng
            cur = None
            if len(plan) == 2:
                # second cycle: resume, autosave again after `plan[1]` further calls, crash again, resume again
                s2 = A.Session(wd, save_calls=[plan[1]], crash_after_save_call=plan[1], rng=rng2)
                status2, info2 = s2.resume(path)
                evaluations += 1
                if status2 == "crashed":
                    s3 = A.Session(wd, rng=rng2)
                    status3, final = s3.resume(s2.autosave_file)
                else:
                    status3, final = status2, info2
            else:
                s2 = A.Session(wd, rng=rng2)
                status3, final = s2.resume(path)
            if status3 != "done":
                return result(False, sig=f"resume-failed|{case['path']}", msg=f"{label}: resume after a crash at progress call {plan} ended with {status3}: {final}", outcome="resfail")
            d = A.compare_digests(base, A.results_digest(final))
            if d:
                kind = "perm" if case["perm"] else "noperm"
                return result(False, sig=f"resume-differs|{case['path']}|{kind}|{d.split(':')[0].split(' ')[0]}", msg=f"{label}: crash after the autosave of progress call {plan} of {total}, resumed results differ from the uninterrupted run: {d}", outcome="diff", states=evaluations, transitions=evaluations)
            left = os.listdir(wd)
            if left:
                return result(False, sig="leftover-file|resumed", msg=f"{label}: files left after the resumed run finished: {left}", outcome="left")
            nontrivial += 0 < k < total - 1
    occ = base["occupation"][1][-1].real
    return result(True, outcome=["ok", total, rnd(occ, 4)], states=evaluations, transitions=evaluations, nontrivial=nontrivial > 0, extra={"evaluations": evaluations})
