"""
C17 - emu-mps quantum-jump trajectories reproduce Lindblad dynamics on average.

E3, exact average: both random draws of a trajectory are environment answers.  The jump threshold takes every value of a midpoint grid
{(k+1/2)/K} (weight 1/K each), the jump-operator choice takes EVERY (atom, operator) pair with the exact weight w_i / sum(w) the code handed
to random.choices.  The explorer enumerates the whole tree of trajectories with at most J jumps, running the real MPSBackend.run() for every
path (stateless replay), and accumulates sum(weight x observable) and the explored probability mass m (m + cut-off mass must be 1).
Oracle: Lindblad reference with PULSER's collapse operators (C16 oracle): |average - exact| <= (1 - m) + quadrature bound; every single
trajectory reports observables of a normalised state in their physical range.
"""
import contextlib
import io
import logging

import numpy as np

from mc import pulser_kit as kit
from mc import runner, seams
from mc.core import result, rnd
from mc.ref import noise_ref
from mc.ref import pulser_ref as R

ID = "C17"
LEVEL = "model_checking"
ENGINE = "E3 environment-answer explorer: complete tree of (threshold grid x jump choice) answers up to J jumps, exact path probabilities"
RULE = (
    "case = (sequence, noise model, K, J); inside: every trajectory of the answer tree with <= J jumps, each a real run; states = trajectories "
    "(paths), transitions = random draws answered; non-trivial = at least one explored trajectory contains a jump"
)
ASSUMPTIONS = [
    "random.uniform and random.choices are the only random sources of a trajectory (seam: emu_mps.mps_backend_impl.random)",
    "threshold quadrature: midpoint rule with K points for the first threshold and K/8 for later ones; bound 8e-3 (K=32) / 4e-3 (K=64) = 2x the largest deviation measured on the unchanged tree (3.6e-3 at K=32); a wrong operator, level or rate moves the averages by > 3e-2",
    "Lindblad reference = vectorised Liouvillian expm with Pulser's collapse operators (mc/ref), stands in for QuTiP mesolve",
    "the asymmetric leakage case differs from Pulser's definition through the recorded C24 defect (3x3 operators: x rows/columns not swapped) and is reported as a known finding",
]
CHUNK = 1


class CutOff(Exception):
    pass


class TreeRandom:
    def __init__(self, prefix, K1, K2, J):
        self.prefix, self.K1, self.K2, self.J = list(prefix), K1, K2, J
        self.points = []
        self.jumps = 0
        self.uniforms = 0

    def _pick(self, nopt, first_legal=0):
        i = len(self.points)
        return self.prefix[i] if i < len(self.prefix) else first_legal

    def uniform(self, a, b):
        K = self.K1 if self.uniforms == 0 else self.K2
        self.uniforms += 1
        c = self._pick(K)
        self.points.append(("u", K, c, 1.0 / K))
        return a + (b - a) * (c + 0.5) / K

    def choices(self, population, weights=None, k=1):
        if self.jumps >= self.J:
            raise CutOff()
        self.jumps += 1
        w = np.asarray(weights, dtype=float)
        legal = np.flatnonzero(w > 1e-14 * w.sum())
        c = self._pick(len(w), int(legal[0]))
        self.points.append(("c", w, c, float(w[c] / w.sum())))
        return [population[c]]


def _cases(tier):
    K, J = (32, 2) if tier == "quick" else (64, 3)
    e = lambda i, j, d=2: (np.eye(d, dtype=complex)[:, [i]] @ np.eye(d, dtype=complex)[[j], :])  # noqa: E731
    out = [
        {"name": "relaxation", "basis": "rydberg", "noise": dict(relaxation_rate=3.0)},
        {"name": "dephasing", "basis": "rydberg", "noise": dict(dephasing_rate=2.0)},
        {"name": "eff_excite", "basis": "rydberg", "noise": dict(eff_noise_opers=[e(0, 1)], eff_noise_rates=[2.0])},  # Pulser order (r,g): |r><g|
    ]
    # relaxation with a leakage level present (3-level operators): symmetric weak leak so that the recorded C24 mapping defect does not matter
    out.append({"name": "relaxation_with_leak_level", "basis": "rydberg", "noise": dict(relaxation_rate=3.0, with_leakage=True, eff_noise_opers=[e(2, 0, 3) + e(2, 1, 3)], eff_noise_rates=[0.2])})
    # asymmetric leakage: exercises the recorded finding (C24 mapping defect seen through the trajectory average) in both tiers
    out.append({"name": "leak_asymmetric", "basis": "rydberg", "noise": dict(with_leakage=True, eff_noise_opers=[e(2, 0, 3), e(2, 1, 3)], eff_noise_rates=[2.5, 0.3])})
    if tier == "thorough":
        out += [
            {"name": "depolarizing", "basis": "rydberg", "noise": dict(depolarizing_rate=1.5)},
            {"name": "xy_dephasing", "basis": "xy", "noise": dict(dephasing_rate=2.0)},
            {"name": "leak_symmetric", "basis": "rydberg", "noise": dict(with_leakage=True, eff_noise_opers=[e(2, 0, 3) + e(2, 1, 3)], eff_noise_rates=[1.5])},
            {"name": "relaxation3", "basis": "rydberg", "noise": dict(relaxation_rate=2.0), "shape": "bent3"},
        ]
    for c in out:
        c.update(K=K, J=2 if (tier == "quick" or c["name"] != "relaxation") else J, K2div=8)
    return out


def bounds(tier, seed):
    return {"cases": [c["name"] for c in _cases(tier)], "K (threshold grid, first jump)": 32 if tier == "quick" else 64, "K2 (later jumps)": "K/8", "J (max jumps)": "2 (thorough: 3 for the relaxation case)", "T_ns": 200, "dt": 20}


def cases(tier, seed):
    for c in _cases(tier):
        c = dict(c)
        c["noise"] = {k: ([np.asarray(m).tolist() for m in v] if k == "eff_noise_opers" else v) for k, v in c["noise"].items()}
        c["noise"] = {k: ([[[[x.real, x.imag] for x in row] for row in m] for m in v] if k == "eff_noise_opers" else v) for k, v in c["noise"].items()}
        yield c


def _noise_model(spec):
    import pulser

    kw = dict(spec)
    if "eff_noise_opers" in kw:
        kw["eff_noise_opers"] = [np.array([[complex(*x) for x in row] for row in m]) for m in kw["eff_noise_opers"]]
    return pulser.NoiseModel(**kw)


def run_case(case):
    import emu_mps as m
    import emu_mps.mps_backend_impl as impl_mod

    coords = kit.SHAPES[case.get("shape", "pair")]
    n = len(coords)
    spec = {"coords": coords, "device": "mock", "basis": case["basis"], "pulses": [{"amp": ["const", 200, 12.0], "det": ["const", 200, 3.0], "phase": 0.3}]}
    seq = kit.build_sequence(spec)
    nm = _noise_model(case["noise"])
    ev = [0.5, 1.0]
    label = f"{case['name']} K={case['K']} J={case['J']}"
    K1, K2, J = case["K"], max(case["K"] // case.get("K2div", 4), 4), case["J"]

    def one(prefix):
        rng = TreeRandom(prefix, K1, K2, J)
        obs = [m.Occupation(evaluation_times=ev), m.CorrelationMatrix(evaluation_times=[1.0])]
        cfg = m.MPSConfig(dt=20, precision=1e-8, observables=obs, noise_model=nm, optimize_qubit_ordering=False, log_level=logging.CRITICAL, num_gpus_to_use=0)
        try:
            with seams.module_random(impl_mod, rng), contextlib.redirect_stdout(io.StringIO()):
                res = m.MPSBackend(seq, config=cfg).run()
        except CutOff:
            return rng, None
        return rng, res

    stack = [[]]
    acc = {("occ", t): np.zeros(n) for t in ev}
    acc["corr"] = np.zeros((n, n))
    mass = cut = 0.0
    paths = draws = with_jump = 0
    while stack:
        prefix = stack.pop()
        try:
            rng, res = one(prefix)
        except Exception as e:
            return result(False, sig=f"raises|{case['name']}|{type(e).__name__}", msg=f"{label}: trajectory {prefix} raised {type(e).__name__}: {str(e)[:300]}", outcome="raise", states=paths + 1, transitions=draws)
        paths += 1
        draws += len(rng.points)
        if [p[2] for p in rng.points[: len(prefix)]] != list(prefix):
            return result(False, sig="HARNESS", msg=f"{label}: replay divergence on {prefix}", outcome="harness")
        prob = float(np.prod([p[3] for p in rng.points])) if rng.points else 1.0
        if res is None:
            cut += prob
        else:
            mass += prob
            with_jump += rng.jumps > 0
            for t in ev:
                o = runner.to_np(runner.get_at(res, "occupation", t)).astype(float)
                if o.min() < -1e-9 or o.max() > 1 + 1e-9:
                    return result(False, sig=f"range|{case['name']}", msg=f"{label}: trajectory {prefix}: occupation {o} out of range at t={t}", outcome="range", states=paths, transitions=draws)
                acc[("occ", t)] += prob * o
            c = runner.to_np(runner.get_at(res, "correlation_matrix", 1.0)).astype(float)
            if c.min() < -1e-9 or c.max() > 1 + 1e-9:
                return result(False, sig=f"range|{case['name']}", msg=f"{label}: trajectory {prefix}: correlation out of range", outcome="range", states=paths, transitions=draws)
            acc["corr"] += prob * c
        for i in range(len(prefix), len(rng.points)):
            kind, info, chosen, _ = rng.points[i]
            base = [p[2] for p in rng.points[:i]]
            if kind == "u":
                alts = [k for k in range(info) if k != chosen]
            else:
                alts = [int(k) for k in np.flatnonzero(info > 1e-14 * info.sum()) if k != chosen]
            for a in alts:
                stack.append(base + [a])
        if paths > 60000:
            return result(False, sig="HARNESS", msg=f"{label}: more than 60000 trajectories", outcome="harness")
    if not abs(mass + cut - 1.0) <= 1e-9:  # NaN fails
        return result(False, sig="HARNESS", msg=f"{label}: explored mass {mass} + cut mass {cut} != 1", outcome="harness")
    # reference
    ops, _, d, _ = noise_ref.collapse_ops_for(seq, nm)
    ref = runner.Ref(spec, {"dt": 20, "eval": ev}, slm_rule="mid", Ls=R.embed_all(ops, n, d), dim=d)
    quad = 8e-3 if case["K"] <= 32 else 4e-3
    tol = (1.0 - mass) + quad
    worst = 0.0
    for t in ev:
        exact = ref.observables(t)["occupation"]
        avg = acc[("occ", t)]
        err = np.abs(avg - exact * 1.0).max()
        worst = max(worst, err)
        # the average over the explored mass underestimates by at most (1 - m): compare avg with exact allowing that slack
        if not err <= tol:  # NaN fails
            sig = f"average|{case['name']}|occupation"
            return result(False, sig=sig, msg=f"{label}: trajectory average of the occupation at t={t} is {np.round(avg, 5).tolist()} (explored mass {mass:.4f}, {paths} trajectories) but the Lindblad equation gives {np.round(exact, 5).tolist()}; |diff| {err:.2e} > {tol:.2e}", outcome=["avg", sig], states=paths, transitions=draws)
    exact = ref.observables(1.0)["correlation_matrix"]
    err = np.abs(acc["corr"] - exact).max()
    worst = max(worst, err)
    if not err <= tol:  # NaN fails
        sig = f"average|{case['name']}|correlation"
        return result(False, sig=sig, msg=f"{label}: trajectory average of the correlation matrix differs from the Lindblad value by {err:.2e} > {tol:.2e} (mass {mass:.4f})", outcome=["avg", sig], states=paths, transitions=draws)
    return result(True, outcome=["ok", paths, round(mass, 4), rnd(acc[("occ", 1.0)], 3)], states=paths, transitions=max(draws, 1), nontrivial=with_jump > 0, extra={"paths": paths, "mass": mass, "worst": worst, "with_jump": int(with_jump)})
