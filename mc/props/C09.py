"""
C09 - the DMRG solver finds the ground state of the final Hamiltonian.

E1 (+E3 for the optimiser answer): complete product register {chain, ring, ladder, N=2..5} x drive {constant (Omega, delta) table
incl. both signs of delta; linear detuning sweep evaluated at several times} x dt x precision x max_bond_dim x qubit ordering
{off, on with EVERY optimiser answer p in S_N (N <= 4)} through the real MPSBackend.run() with solver=DMRG.
Oracle: dense diagonalisation of the reference Hamiltonian of the step that ends at each evaluation time: E >= E0 - 1e-8|H| always;
for cases the oracle classifies as gapped (gap >= 0.5 rad/us, Omega > 0, bond cap not binding) |E - E0| <= 10 x the solver's
energy tolerance (1e-5); the returned state is normalised, centred at site 0 and right-orthonormal.
"""
import contextlib
import io
import itertools
import logging

import numpy as np

from mc import pulser_kit as kit
from mc import runner, seams
from mc.core import result, rnd
from mc.ref import pulser_ref as R

ID = "C09"
LEVEL = "model_checking"
ENGINE = "E1 small-scope product explorer over (register, drive, dt, precision, max_bond_dim) + E3 every optimiser answer"
RULE = (
    "case = one point of the product; one real DMRG run, energy/occupation/state at every evaluation time compared with the dense "
    "ground state of that step's Hamiltonian; distinct = distinct case dicts; non-trivial = ground state is not a product basis state (Omega > 0)"
)
ASSUMPTIONS = [
    "reference Hamiltonian of a step = midpoint-PCHIP drive + register interaction (mc/ref), diagonalised with numpy.linalg.eigh",
    "gapped := E1 - E0 >= 0.5 rad/us on every step that ends at an evaluation time",
    "solver energy tolerance 1e-5 (DMRGBackendImpl default): accepted error 1e-4 for gapped cases",
]
CHUNK = 1

TABLE = [(4.0, -6.0), (4.0, 0.0), (4.0, 8.0), (9.0, 20.0), (1.0, 3.0), (0.0, 5.0), (6.0, 20.0)]


def _registers(tier):
    regs = {"pair": kit.SHAPES["pair"], "chain3": kit.chain(3), "ring4": kit.ring(4, 7.5), "ladder4": kit.ladder(4), "chain5": kit.chain(5)}
    # 2 x 4 array at 5 um: deep in the ordered regime, the first step from |g..g> needs several DMRG sweeps
    regs["grid8"] = [[5.0 * (i % 4), 5.0 * (i // 4)] for i in range(8)]
    if tier == "thorough":
        regs.update({"ring6": kit.ring(6, 7.5), "ladder6": kit.ladder(6), "chain7": kit.chain(7), "chain8": kit.chain(8)})
    return regs


def bounds(tier, seed):
    return {
        "registers": list(_registers(tier)),
        "drives": {"const (Omega, delta)": TABLE, "sweep": "Omega 5, delta -8 -> +12 over 200 ns, evaluated at 0.25, 0.5, 0.75, 1", "phasejump": "constant (Omega, delta), phase 0 -> 1.3 at half time"},
        "dt": [10, 50],
        "precision": [1e-5, 1e-8],
        "max_bond_dim": ["unbounded", 2],
        "ordering": "off; on with every p in S_N (N<=4)",
    }


def cases(tier, seed):
    for name, coords in _registers(tier).items():
        n = len(coords)
        if name == "grid8":
            for idx in (6, 3, 2):
                for prec in (1e-5, 1e-8):
                    yield {"reg": name, "drive": ["const", idx], "dt": 10, "precision": prec, "cap": None, "perm": None}
            continue
        for drive in [("const", i) for i in range(len(TABLE))] + [("sweep", 0), ("phasejump", 0), ("phasejump", 2)]:
            for dt in (10, 50):
                for prec in (1e-5, 1e-8):
                    for cap in (None, 2):
                        if cap and (n < 4 or prec != 1e-8 or dt != 10):
                            continue
                        yield {"reg": name, "drive": list(drive), "dt": dt, "precision": prec, "cap": cap, "perm": None}
        # the solver named by the documented string instead of the enum member
        for drive in (("const", 0), ("sweep", 0)):
            yield {"reg": name, "drive": list(drive), "dt": 10, "precision": 1e-8, "cap": None, "perm": None, "solver": "dmrg"}
        if n <= 4:
            for drive in (("const", 0), ("const", 2), ("sweep", 0), ("phasejump", 0)):
                for p in itertools.permutations(range(n)):
                    yield {"reg": name, "drive": list(drive), "dt": 10, "precision": 1e-8, "cap": None, "perm": list(p)}


def run_case(case):
    import emu_mps as m

    coords = _registers("thorough")[case["reg"]]
    n = len(coords)
    kind, idx = case["drive"]
    if kind == "const":
        om, de = TABLE[idx]
        pulses = [{"amp": ["const", 100, om], "det": ["const", 100, de], "phase": 0.0}]
        ev = [0.5, 1.0] if case["reg"] != "grid8" else [0.1, 0.5, 1.0]  # right after the very first step as well
    elif kind == "phasejump":
        # amplitude and detuning identical in all steps, only the phase changes half way: a different Hamiltonian with another ground state
        om, de = TABLE[idx]
        pulses = [{"amp": ["const", 50, om], "det": ["const", 50, de], "phase": 0.0}, {"amp": ["const", 50, om], "det": ["const", 50, de], "phase": 1.3}]
        ev = [0.5, 0.8, 1.0]
    else:
        om = 5.0
        pulses = [{"amp": ["const", 200, 5.0], "det": ["ramp", 200, -8.0, 12.0], "phase": 0.0}]
        ev = [0.25, 0.5, 0.75, 1.0]
    spec = {"coords": coords, "device": "mock", "basis": "rydberg", "pulses": pulses}
    seq = kit.build_sequence(spec)
    label = " ".join(f"{k}={v}" for k, v in case.items())
    with_state = case["perm"] is None
    obs = [m.Energy(evaluation_times=ev), m.Occupation(evaluation_times=ev)] + ([m.StateResult(evaluation_times=[1.0])] if with_state else [])
    kw = {}
    if case["cap"]:
        kw["max_bond_dim"] = case["cap"]
    try:
        cfg = m.MPSConfig(dt=case["dt"], precision=case["precision"], observables=obs, solver=case.get("solver") or m.Solver.DMRG, log_level=logging.CRITICAL, num_gpus_to_use=0, optimize_qubit_ordering=case["perm"] is not None, **kw)
        with contextlib.redirect_stdout(io.StringIO()):
            if case["perm"] is not None:
                with seams.optimiser_answer(case["perm"]):
                    res = m.MPSBackend(seq, config=cfg).run()
            else:
                res = m.MPSBackend(seq, config=cfg).run()
    except Exception as e:
        return result(False, sig=f"raises|{type(e).__name__}", msg=f"{label}: {type(e).__name__}: {str(e)[:300]}", outcome="raise")
    ref = runner.Ref(spec, {"dt": case["dt"], "eval": ev}, slm_rule="mid")
    capped = bool(case["cap"]) and case["cap"] < 2 ** (n // 2)
    e0s = []
    for t in ev:
        k = ref.index_of(t)
        H = ref.H_at(k)
        w, v = np.linalg.eigh(H)
        Hn = max(1.0, np.abs(w).max())
        E = float(np.real(runner.to_np(runner.get_at(res, "energy", t))))
        e0s.append(round(float(w[0]), 5))
        if E < w[0] - 1e-8 * Hn:
            return result(False, sig="below-ground", msg=f"{label}: energy {E} at t={t} below the exact ground energy {w[0]}", outcome="below")
        gapped = (w[1] - w[0]) >= 0.5 and om > 0 and not capped
        if gapped and abs(E - w[0]) > 1e-4:
            return result(False, sig=f"not-ground|{'perm' if case['perm'] else 'plain'}", msg=f"{label}: energy {E} at t={t}, exact ground energy {w[0]} (gap {w[1] - w[0]:.3f})", outcome="notground")
        if gapped:
            occ = runner.to_np(runner.get_at(res, "occupation", t)).astype(float)
            eocc = R.occupation(v[:, 0], n)
            if not np.abs(occ - eocc).max() <= 2e-2:  # NaN fails
                return result(False, sig=f"occupation|{'perm' if case['perm'] else 'plain'}", msg=f"{label}: occupation {np.round(occ, 4).tolist()} at t={t}, ground state has {np.round(eocc, 4).tolist()}", outcome="occ")
    if with_state:
        st = runner.get_at(res, "state", 1.0)
        from mc.ref.mps_dense import mps_to_vec

        vec = mps_to_vec(st.factors)
        if not abs(np.linalg.norm(vec) - 1) <= 1e-8:  # NaN fails
            return result(False, sig="state-norm", msg=f"{label}: returned state has norm {np.linalg.norm(vec)}", outcome="norm")
        if st.orthogonality_center != 0:
            return result(False, sig="state-centre", msg=f"{label}: returned state declares centre {st.orthogonality_center}", outcome="centre")
        for i, f in enumerate(st.factors[1:], start=1):
            a = f.detach().numpy().reshape(f.shape[0], -1)
            g = a @ a.conj().T
            if not np.abs(g - np.eye(g.shape[0])).max() <= 1e-9:  # NaN fails
                return result(False, sig="state-canonical", msg=f"{label}: tensor {i} of the returned state is not right-orthonormal", outcome="canon")
        if case["cap"] and max(f.shape[2] for f in st.factors[:-1]) > case["cap"]:
            return result(False, sig="bond-cap", msg=f"{label}: bond dimension exceeds max_bond_dim", outcome="cap")
    return result(True, outcome=["ok", e0s], nontrivial=om > 0)
