"""
C15 - sampled bitstrings follow the state's measurement distribution.

E3, exact distribution: the random sources are owned (torch.multinomial, random.random), so the distribution is COMPUTED, not sampled.
 * StateVector / DensityMatrix.sample: the weight vector offered to torch.multinomial, normalised, must be the Born probabilities; for
   num_shots in {1,2,3} EVERY outcome tuple in {0..2^N-1}^shots (N<=3) is returned by the script and the Counter must contain exactly the
   MSB-first bitstrings; larger shot counts (31..20000) with constant and one-deviation scripts for the count.
 * MPS.sample: for one shot ALL dim^N answer paths of the per-qubit conditional draws are explored (N<=4, qubits and qutrits); path probability
   = product of the normalised conditional weights offered; the distribution over bitstrings (x reads '0') must equal the Born marginal;
   2 and 3 shots with every outcome combination (N=2) show that batch rows are independent; batch boundaries 32/33/64/65 for the counts.
 * Readout errors: random.random scripted over {0, p-d, p, p+d, 1-d} for every input bitstring (N<=3) and EVERY answer vector: exactly one
   draw per bit, a bit flips iff (0 and r < p_false_pos) or (1 and r < p_false_neg) - hence the flip probabilities for a uniform source.
 * End to end: BitStrings through both backends with readout errors taken from the noise model.
"""
import contextlib
import io
import itertools
import logging
from collections import Counter

import numpy as np

from mc import explore, pulser_kit as kit, runner, seams
from mc.core import result, rnd
from mc.ref import pulser_ref as R
from mc.ref.mps_dense import mps_to_vec

ID = "C15"
LEVEL = "model_checking"
ENGINE = "E3 environment-answer explorer over the sampler's random draws (torch.multinomial, random.random): every answer sequence, exact probabilities"
RULE = (
    "case = (representation, state, N, dim / shots / error rates); inside: every answer sequence of the scripted random source; states = "
    "answer sequences explored; non-trivial = the state has more than one outcome with non-zero probability"
)
ASSUMPTIONS = [
    "torch.multinomial and random.random are faithful samplers of the weights / the uniform distribution they are given (the only trusted randomness)",
    "Born marginal for qutrits: the leakage level x is read as '0'",
]
CHUNK = 1
STATES = ["basis", "sup", "ghz", "w", "seeded"]


def bounds(tier, seed):
    return {
        "states": STATES,
        "sv/dm": {"N": [1, 2, 3], "all outcome tuples for shots": [1, 2, 3], "count scripts for shots": [31, 32, 33, 64, 65, 1000, 20000]},
        "mps": {"N": [2, 3, 4], "dim": [2, 3], "all paths for shots": 1, "all outcome combinations for shots": "2, 3 (N=2)", "batch boundaries": [31, 32, 33, 64, 65]},
        "readout": {"p": [0.0, 0.1, 0.5, 1.0], "answers": "0, p-d, p, p+d, 1-d", "bitstrings": "all of length <= 3 (quick: <= 2 with all answers, 3 with extreme answers)"},
    }


def cases(tier, seed):
    for rep in ("sv", "dm"):
        for n in (1, 2, 3):
            for st in STATES:
                yield {"family": "dense", "rep": rep, "n": n, "state": st, "seed": seed}
    for dim in (2, 3):
        for n in (2, 3, 4):
            for st in STATES:
                for canon in (True, False):
                    yield {"family": "mps", "n": n, "dim": dim, "state": st, "canonical": canon, "seed": seed}
                if st in ("ghz", "seeded") and n >= 3:
                    # built from raw factors: no declared centre, and truncation settings that would change the state if they were applied
                    yield {"family": "mps", "n": n, "dim": dim, "state": st, "canonical": "raw", "seed": seed}
    for pfp, pfn in itertools.product((0.0, 0.1, 0.5, 1.0), repeat=2):
        yield {"family": "readout", "p_false_pos": pfp, "p_false_neg": pfn, "tier": tier}
    for be in ("sv", "svnoise", "mps"):
        for pfp, pfn in ((0.0, 0.0), (1.0, 0.0), (0.0, 1.0), (0.3, 0.2)):
            yield {"family": "e2e", "backend": be, "p_false_pos": pfp, "p_false_neg": pfn}


def _vec(n, kind, seed, dim):
    from mc.props.C13 import _vec as v13

    if kind == "basis":
        v = np.zeros(dim**n, dtype=complex)
        v[int(("10" * n)[:n], dim)] = 1
        return v
    v = v13(n, kind, seed, dim)
    if dim == 3 and kind == "seeded":
        return v
    if dim == 3 and kind in ("sup", "w"):
        # put some weight on the leakage level of the first atom
        x = np.zeros(dim**n, dtype=complex)
        x[2 * dim ** (n - 1)] = 0.5
        v = v + x
        v /= np.linalg.norm(v)
    return v


def _bits(idx, n, dim=2):
    digits = np.base_repr(idx, dim).zfill(n)
    return "".join("1" if c == "1" else "0" for c in digits)


def _dense(case):
    import torch
    import emu_sv as sv

    n, rep = case["n"], case["rep"]
    v = _vec(n, case["state"], case["seed"], 2)
    label = f"{rep} N={n} state={case['state']}"
    scale = 1.0
    if rep == "sv":
        obj = sv.StateVector(torch.tensor(v, dtype=torch.complex128), gpu=False)
        born = np.abs(v) ** 2
    else:
        rho = np.outer(v, v.conj())
        if case["state"] == "seeded":
            w = _vec(n, "w", 0, 2)
            rho = 0.6 * rho + 0.4 * np.outer(w, w.conj())
        obj = sv.DensityMatrix(torch.tensor(rho, dtype=torch.complex128), gpu=False)
        born = np.real(np.diag(rho))
    states = 0
    D = 2**n
    # 1. offered weights + every outcome tuple
    for shots in (1, 2, 3):
        for tup in itertools.product(range(D), repeat=shots):
            sm = seams.ScriptedMultinomial(answers=[list(tup)])
            with seams.torch_multinomial(sm):
                c = obj.sample(num_shots=shots)
            states += 1
            if len(sm.offers) != 1:
                return result(False, sig=f"{rep}|draws", msg=f"{label}: {len(sm.offers)} calls of the sampler for one sample()", outcome="draws", states=states, transitions=states)
            w, ns, repl = sm.offers[0]
            w = w.numpy().astype(float).reshape(-1)
            if ns != shots or (shots > 1 and not repl):
                return result(False, sig=f"{rep}|num_samples", msg=f"{label}: asked the sampler for {ns} draws (replacement={repl}) for num_shots={shots}", outcome="ns", states=states, transitions=states)
            if w.shape != (D,) or np.abs(w / w.sum() - born / born.sum()).max() > 1e-12:
                return result(False, sig=f"{rep}|weights", msg=f"{label}: weights offered to the sampler {np.round(w / w.sum(), 6).tolist()} are not the Born probabilities {np.round(born, 6).tolist()}", outcome="weights", states=states, transitions=states)
            if shots == 1:
                # the excited state named explicitly (what BitStrings(one_state="r") passes down)
                with seams.torch_multinomial(seams.ScriptedMultinomial(answers=[list(tup)])):
                    c_r = obj.sample(num_shots=shots, one_state="r")
                states += 1
                if Counter(c_r) != Counter(c):
                    return result(False, sig=f"{rep}|one_state", msg=f"{label}: outcome {tup}: sample(one_state='r') reports {dict(c_r)}, sample() reports {dict(c)}", outcome="one_state", states=states, transitions=states)
            exp = Counter(_bits(i, n) for i in tup)
            if Counter(c) != exp:
                return result(False, sig=f"{rep}|bitstrings", msg=f"{label}: outcomes {tup} reported as {dict(c)}, expected {dict(exp)} (MSB = first atom, r -> '1')", outcome="bits", states=states, transitions=states)
    # 2. counts at larger shot numbers: constant script and one deviation
    for shots in (31, 32, 33, 64, 65, 1000, 20000):
        for dev in (None, 0, shots - 1):
            ans = [0] * shots
            if dev is not None:
                ans[dev] = D - 1
            sm = seams.ScriptedMultinomial(answers=[ans])
            with seams.torch_multinomial(sm):
                c = obj.sample(num_shots=shots)
            states += 1
            exp = Counter(_bits(i, n) for i in ans)
            if Counter(c) != exp:
                return result(False, sig=f"{rep}|count", msg=f"{label}: num_shots={shots}: counter {dict(c)} != {dict(exp)}", outcome="count", states=states, transitions=states)
    return result(True, outcome=["ok", rnd(born, 5)], states=states, transitions=states, nontrivial=bool((born > 1e-9).sum() > 1))


def _mps(case):
    import torch
    import emu_mps as m

    n, dim = case["n"], case["dim"]
    v = _vec(n, case["state"], case["seed"], dim)
    eig = ("r", "g", "x") if dim == 3 else ("r", "g")
    letters = "grx"[:dim]
    amps = {}
    for idx, a in enumerate(v):
        if not abs(a) <= 0:  # NaN fails
            amps["".join(letters[int(c)] for c in np.base_repr(idx, dim).zfill(n))] = complex(a)
    label = f"mps N={n} dim={dim} state={case['state']} canonical={case['canonical']}"

    def make():
        st = m.MPS.from_state_amplitudes(eigenstates=eig, amplitudes=amps)
        if case["canonical"] == "raw":
            return m.MPS([f.clone() for f in st.factors], orthogonality_center=None, eigenstates=eig, num_gpus_to_use=0, max_bond_dim=1, precision=0.5)
        if not case["canonical"]:
            st.orthogonalize(n - 1)  # centre away from site 0: sample() has to re-centre
        return st

    dense_before = mps_to_vec(make().factors)
    born = R.born(dense_before, n, dim)
    tot = sum(born.values())
    born = {k: p / tot for k, p in born.items()}
    paths_total = 0
    try:
        dist, paths = explore.exact_bitstring_distribution(lambda: make().sample(num_shots=1), eps=1e-14)
    except Exception as e:
        return result(False, sig=f"mps|raises|{type(e).__name__}", msg=f"{label}: {type(e).__name__}: {str(e)[:300]}", outcome="raise")
    paths_total += paths
    probe = make()
    with seams.torch_multinomial(seams.ScriptedMultinomial(answer_fn=lambda pr, ns, k: [[int(np.flatnonzero(r > 1e-14 * r.sum())[0])] for r in pr.detach().numpy().astype(float)])):
        probe.sample(num_shots=1)
    moved = np.linalg.norm(mps_to_vec(probe.factors) - dense_before)
    if moved > 1e-10:
        return result(False, sig="mps|sample-changes-the-state", msg=f"{label}: sampling changed the represented state by {moved:.3e}", outcome="moved", states=paths_total, transitions=paths_total)
    # the excited state named explicitly (what BitStrings(one_state="r") passes down): the same distribution
    try:
        dist_r, paths_r = explore.exact_bitstring_distribution(lambda: make().sample(num_shots=1, one_state="r"), eps=1e-14)
    except Exception as e:
        return result(False, sig=f"mps|raises|one_state|{type(e).__name__}", msg=f"{label}: sample(one_state='r'): {type(e).__name__}: {str(e)[:300]}", outcome="raise")
    paths_total += paths_r
    if explore.dist_distance(dist_r, dist) > 1e-12:
        return result(False, sig=f"mps|one_state|dim{dim}", msg=f"{label}: sample(one_state='r') gives {rnd(dist_r, 6)}, sample() gives {rnd(dist, 6)}", outcome="one_state", states=paths_total, transitions=paths_total)
    dd = explore.dist_distance(dist, born)
    if dd > 1e-10 or abs(sum(dist.values()) - 1) > 1e-10:
        return result(False, sig=f"mps|distribution|dim{dim}", msg=f"{label}: exact sampling distribution {rnd(dist, 6)} != Born marginal {rnd(born, 6)} (max diff {dd:.2e}, mass {sum(dist.values())})", outcome="dist", states=paths_total, transitions=paths_total)
    # batch rows are independent: N=2, shots 2 and 3, every combination of per-site answers
    if n == 2:
        for shots in (2, 3):
            for combo in itertools.product(range(dim), repeat=shots * n):
                rows = [combo[i * n:(i + 1) * n] for i in range(shots)]
                offered = []

                def ans(probs, ns, k, _rows=rows, _off=offered):
                    _off.append(probs.detach().numpy().astype(float).copy())
                    return [[r[k]] for r in _rows]

                sm = seams.ScriptedMultinomial(answer_fn=ans)
                with seams.torch_multinomial(sm):
                    c = make().sample(num_shots=shots)
                paths_total += 1
                # legal only if every chosen outcome had non-zero weight
                legal = all(offered[k][i, rows[i][k]] > 1e-14 * offered[k][i].sum() for k in range(n) for i in range(shots))
                if not legal:
                    continue
                exp = Counter("".join("1" if x == 1 else "0" for x in r) for r in rows)
                if Counter(c) != exp:
                    return result(False, sig="mps|batch-bitstrings", msg=f"{label}: shots={shots} answers {rows} reported as {dict(c)} expected {dict(exp)}", outcome="batch", states=paths_total, transitions=paths_total)
                # row i's conditional weights must only depend on row i's own earlier answers
                vec = mps_to_vec(make().factors).reshape([dim] * n)
                for i in range(shots):
                    p0 = (np.abs(vec) ** 2).sum(axis=1)
                    w0 = offered[0][i] / offered[0][i].sum()
                    p1 = np.abs(vec[rows[i][0]]) ** 2
                    w1 = offered[1][i] / offered[1][i].sum()
                    if np.abs(w0 - p0 / p0.sum()).max() > 1e-10 or np.abs(w1 - p1 / p1.sum()).max() > 1e-10:
                        return result(False, sig="mps|batch-dependence", msg=f"{label}: shots={shots} answers {rows}: row {i} was offered weights {w0.tolist()} / {w1.tolist()}, Born conditionals {(p0 / p0.sum()).tolist()} / {(p1 / p1.sum()).tolist()}", outcome="dep", states=paths_total, transitions=paths_total)
    # counts across batch boundaries (first legal outcome everywhere; one deviating shot)
    for shots in (31, 32, 33, 64, 65):
        for dev in (None, 0, shots - 1):
            pos = [0]

            def ans(probs, ns, k, _dev=dev, _pos=pos):
                p = probs.detach().numpy().astype(float)
                first = [int(np.flatnonzero(row > 1e-14 * row.sum())[0]) for row in p]
                last = [int(np.flatnonzero(row > 1e-14 * row.sum())[-1]) for row in p]
                out = []
                site = k % n
                batch_start = _pos[0]
                for i in range(p.shape[0]):
                    out.append([last[i] if (_dev is not None and batch_start + i == _dev) else first[i]])
                if site == n - 1:
                    _pos[0] += p.shape[0]
                return out

            sm = seams.ScriptedMultinomial(answer_fn=ans)
            with seams.torch_multinomial(sm):
                c = make().sample(num_shots=shots)
            paths_total += 1
            if sum(c.values()) != shots or any(len(b) != n for b in c):
                return result(False, sig="mps|count", msg=f"{label}: num_shots={shots}: total {sum(c.values())}, counter {dict(c)}", outcome="count", states=paths_total, transitions=paths_total)
            if dev is None and len(c) != 1:
                return result(False, sig="mps|count-constant", msg=f"{label}: num_shots={shots} with a constant script gave {dict(c)}", outcome="count", states=paths_total, transitions=paths_total)
    # readout errors through MPS.sample itself (qubits and qutrits): scripted draws 0.25 flip exactly the bits whose rate exceeds 0.25
    import emu_base.utils as U

    for pfp, pfn in ((0.0, 1.0), (0.0, 0.4), (1.0, 0.0), (0.4, 0.3), (0.1, 0.1)):

        def first(probs, ns, k):
            pp = probs.detach().numpy().astype(float)
            return [[int(np.flatnonzero(r > 1e-14 * r.sum())[-1])] for r in pp]

        sr = seams.ScriptedRandom(randoms=[0.25] * (n * 2))
        try:
            with seams.torch_multinomial(seams.ScriptedMultinomial(answer_fn=first)), seams.module_random(U, sr):
                c = make().sample(num_shots=2, p_false_pos=pfp, p_false_neg=pfn)
        except NotImplementedError:
            if dim == 3 and pfp > 0:
                continue  # documented refusal: false positives are not defined for qutrits
            return result(False, sig=f"mps|readout-raises|dim{dim}", msg=f"{label}: sample(p_false_pos={pfp}, p_false_neg={pfn}) raised NotImplementedError", outcome="raise")
        paths_total += 1
        with seams.torch_multinomial(seams.ScriptedMultinomial(answer_fn=first)):
            ideal = make().sample(num_shots=2)
        (ib,) = ideal.keys()
        exp = "".join(("1" if (ch == "0" and 0.25 < pfp) else ("0" if (ch == "1" and 0.25 < pfn) else ch)) for ch in ib)
        if dict(c) != {exp: 2}:
            return result(False, sig=f"mps|readout|dim{dim}", msg=f"{label}: sample(p_false_pos={pfp}, p_false_neg={pfn}) with readout draws 0.25 on ideal outcome {ib} gave {dict(c)}, expected {{'{exp}': 2}}", outcome="readout", states=paths_total, transitions=paths_total)
    return result(True, outcome=["ok", rnd(born, 5)], states=paths_total, transitions=paths_total, nontrivial=len([p for p in born.values() if p > 1e-9]) > 1)


def _readout(case):
    import emu_base.utils as U

    pfp, pfn = case["p_false_pos"], case["p_false_neg"]
    d = 1e-3
    states = 0
    for n in (1, 2, 3):
        alph = sorted({a for p in (pfp, pfn) for a in (0.0, max(p - d, 0.0), p, min(p + d, 1 - d), 1 - d) if 0 <= a < 1})
        if n == 3:
            alph = [alph[0], alph[-1]] if case["tier"] == "quick" else alph
        for bits in itertools.product("01", repeat=n):
            s = "".join(bits)
            for answers in itertools.product(alph, repeat=n):
                sr = seams.ScriptedRandom(randoms=list(answers))
                with seams.module_random(U, sr):
                    try:
                        out = U.apply_measurement_errors(Counter({s: 1}), p_false_pos=pfp, p_false_neg=pfn)
                    except seams.NeedMore:
                        return result(False, sig="readout|extra-draw", msg=f"p_fp={pfp} p_fn={pfn} bitstring {s}: more than one random draw per bit", outcome="draws", states=states, transitions=states)
                states += 1
                if sr.randoms:
                    return result(False, sig="readout|missing-draw", msg=f"p_fp={pfp} p_fn={pfn} bitstring {s}: only {n - len(sr.randoms)} draws for {n} bits (flips would not be independent)", outcome="draws", states=states, transitions=states)
                exp = "".join(("1" if (c == "0" and r < pfp) else ("0" if (c == "1" and r < pfn) else c)) for c, r in zip(s, answers))
                if out != Counter({exp: 1}):
                    return result(False, sig="readout|flip-rule", msg=f"p_fp={pfp} p_fn={pfn}: bitstring {s} with draws {answers} read as {dict(out)}, expected {exp}", outcome="flip", states=states, transitions=states)
        # counts are preserved and every shot is treated separately
        sr = seams.ScriptedRandom(randoms=[0.999] * (n * 5) )
        with seams.module_random(U, sr):
            out = U.apply_measurement_errors(Counter({"1" * n: 3, "0" * n: 2}), p_false_pos=pfp, p_false_neg=pfn)
        states += 1
        if sum(out.values()) != 5 or sr.randoms:
            return result(False, sig="readout|count", msg=f"p_fp={pfp} p_fn={pfn}: 5 shots in, {sum(out.values())} out, {len(sr.randoms)} draws unused", outcome="count", states=states, transitions=states)
    return result(True, outcome=["ok", pfp, pfn, states], states=states, transitions=states, nontrivial=pfp > 0 or pfn > 0)


def _e2e(case):
    """BitStrings through the backends: atom order, '1' = excited, readout rates taken from the noise model."""
    import pulser
    import emu_base.utils as U
    import emu_mps as m
    import emu_sv as sv

    be, pfp, pfn = case["backend"], case["p_false_pos"], case["p_false_neg"]
    mod = m if be == "mps" else sv
    # atom b (second) gets a pi pulse through a local channel, atoms a and c stay in g: bitstring '010'
    spec = {"coords": [[0.0, 0.0], [20.0, 0.0], [40.0, 0.0]], "ids": ["a", "b", "c"], "device": "mock", "basis": "rydberg_local", "pulses": [{"amp": ["const", 100, float(np.pi) * 10], "det": ["const", 100, 0.0], "phase": 0.0, "targets": [1]}]}
    kwn = dict(state_prep_error=0.0, p_false_pos=pfp, p_false_neg=pfn)
    if be == "svnoise":
        kwn["dephasing_rate"] = 1e-6
    nm = pulser.NoiseModel(**kwn) if (pfp or pfn or be == "svnoise") else None
    label = f"e2e backend={be} p_false_pos={pfp} p_false_neg={pfn}"
    shots = 4
    obs = [mod.BitStrings(evaluation_times=[1.0], num_shots=shots)]
    # readout draws: all 0.25 -> flips exactly where rate > 0.25
    sr = seams.ScriptedRandom(randoms=[0.25] * 64)
    try:
        with seams.module_random(U, sr):
            cfg = {"dt": 10, "eval": [1.0], "precision": 1e-9}
            if be == "mps":
                res, _ = runner.run_mps(spec, cfg, observables=obs, noise=nm)
            else:
                res, _ = runner.run_sv(spec, cfg, observables=obs, noise=nm)
    except Exception as e:
        return result(False, sig=f"e2e|raises|{be}|{type(e).__name__}", msg=f"{label}: {type(e).__name__}: {str(e)[:300]}", outcome="raise")
    c = runner.get_at(res, "bitstrings", 1.0)
    if list(res.atom_order) != ["a", "b", "c"]:
        return result(False, sig="e2e|atom_order", msg=f"{label}: atom order {res.atom_order}", outcome="order")
    ideal = "010"
    exp = "".join(("1" if (ch == "0" and 0.25 < pfp) else ("0" if (ch == "1" and 0.25 < pfn) else ch)) for ch in ideal)
    if sum(c.values()) != shots or set(c) != {exp}:
        return result(False, sig=f"e2e|bitstrings|{be}", msg=f"{label}: pi pulse on the middle atom, readout draws 0.25: counter {dict(c)}, expected {{'{exp}': {shots}}}", outcome="bits")
    used = 64 - len(sr.randoms)
    want = 3 * shots if (pfp > 0 or pfn > 0) else 0
    if used != want:
        return result(False, sig=f"e2e|draws|{be}", msg=f"{label}: {used} readout draws for {shots} shots of 3 bits (expected {want})", outcome="draws")
    return result(True, outcome=["ok", be, exp], nontrivial=bool(pfp or pfn))


def run_case(case):
    return {"dense": _dense, "mps": _mps, "readout": _readout, "e2e": _e2e}[case["family"]](case)
