"""
C23 - interactions follow the register, cutoff, custom matrix and SLM schedule.

E1.  Adapter level: complete product register (all 2..4-atom subsets of a 2x3 lattice) x interaction type x
user matrix x cutoff x SLM mask (every subset of atoms) x mask end (first-pulse length) x query times, through the
real PulserData(...).get_sequences(); oracle = C6/r^6 resp. C3(1-3cos^2)/r^3 from the coordinates, or the user matrix,
with |entry| < cutoff -> 0 and masked rows/columns zero strictly before the mask end.
Backend level: the real SVBackend / MPSBackend are run on blockade-sized 2-3 atom registers with every SLM mask, mask end on
and off the step grid, register / custom / cut-off interactions; occupations must equal the dense reference that uses the
masked matrix in every step entirely before the mask end and the full one in every step after it (straddling steps:
either).
"""
import itertools
import logging

import numpy as np

from mc import pulser_kit as kit
from mc import runner
from mc.core import result, rnd, seeded_values
from mc.ref import pulser_ref as R

ID = "C23"
LEVEL = "model_checking"
ENGINE = "E1 small-scope product explorer over (register subset, interaction type, user matrix, cutoff, SLM mask, mask end, query time / backend)"
RULE = (
    "adapter case = (register subset, type, first-pulse length); inside it every (user matrix, cutoff, SLM mask) of the alphabets is "
    "built and the matrix is queried at {0, end-eps, end, end+eps, T}; backend case = one real run; states = distinct "
    "(register, type, matrix, cutoff, mask, end) inputs; non-trivial = at least one non-zero entry survives"
)
ASSUMPTIONS = [
    "register formula: U_ij = C6/r^6 (ising), C3 (1 - 3 cos^2 theta)/r^3 (XY, theta = angle to the magnetic field), r rounded to 1e-6 um as Pulser does",
    "mask end = end of the first pulse on a global channel (Pulser's _slm_mask_time)",
    "a solver step that straddles the mask end may use either matrix",
]
CHUNK = 1

LATTICE = [[0.0, 0.0], [6.0, 0.0], [12.0, 0.0], [0.0, 7.0], [6.0, 7.0], [12.0, 7.0]]


def _subsets(tier):
    sizes = (2, 3) if tier == "quick" else (2, 3, 4)
    out = []
    for k in sizes:
        out += [list(c) for c in itertools.combinations(range(6), k)]
    if tier == "quick":
        out += [[0, 1, 3, 4], [0, 2, 3, 5], [0, 1, 2, 5]]
    return out


def bounds(tier, seed):
    return {
        "registers": f"{len(_subsets(tier))} subsets of a 2x3 lattice (6 x 7 um)",
        "type": ["rydberg", "xy"],
        "first_pulse": [16, 50],
        "user_matrix": ["none", "signed-with-zero", "seeded", "(1,N,N)-shaped"],
        "cutoff": ["0", "1e-6", "exactly an entry", "between entries", "> max"],
        "slm": "every subset of atoms (incl. none, all)",
        "query_times": ["0", "end-1e-9", "end", "end+1e-9", "T"],
        "backend_block": "sv, mps x masks x dt {10, 20, 7} x first pulse {20, 30} x {register, custom, cutoff}",
    }


def cases(tier, seed):
    for sub in _subsets(tier):
        for typ in ("rydberg", "xy"):
            for first in (16, 50):
                yield {"family": "adapter", "atoms": sub, "type": typ, "first": first, "seed": seed}
            if len(sub) == 3:
                # the first pulse does not start at t = 0: the mask still holds from the very beginning until that pulse ends
                yield {"family": "adapter", "atoms": sub, "type": typ, "first": 16, "delay": 20, "seed": seed}
    for backend in ("sv", "mps"):
        for shape in ("pair", "line3"):
            n = len(kit.SHAPES[shape])
            masks = [list(m) for k in range(0, n + 1) for m in itertools.combinations(range(n), k)]
            for mask in masks:
                for dt in (10, 20, 7):
                    for first in (20, 30):
                        for inter in ("register", "custom", "cutoff"):
                            if tier == "quick" and inter != "register" and dt == 7:
                                continue
                            yield {"family": "backend", "backend": backend, "shape": shape, "mask": mask, "dt": dt, "first": first, "inter": inter, "seed": seed}
                            if backend == "mps" and n == 3 and mask and inter == "register" and dt == 10:
                                for perm in ([1, 0, 2], [2, 0, 1], [0, 2, 1]):
                                    yield {"family": "backend", "backend": backend, "shape": shape, "mask": mask, "dt": dt, "first": first, "inter": inter, "seed": seed, "perm": perm}


def _user_matrices(n, seed):
    vals = seeded_values(seed, n * n, 0.2, 3.0)
    a = np.zeros((n, n))
    b = np.zeros((n, n))
    sign = [1, -2, 1e-3, 0, 1, -1]
    k = 0
    for i in range(n):
        for j in range(i + 1, n):
            a[i, j] = a[j, i] = sign[k % len(sign)] * (1 + 0.1 * k)
            b[i, j] = b[j, i] = vals[k] * (-1 if k % 3 == 1 else 1)
            k += 1
    return {"none": None, "signed": a.tolist(), "seeded": b.tolist()}


def _expected(U, cutoff, mask, before):
    E = np.array(U, dtype=float)
    E = np.where(np.abs(E) < cutoff, 0.0, E)
    if before:
        E = R.masked(E, mask)
    return E


def _adapter(case):
    import emu_mps as m
    from emu_base import PulserData

    sub, typ, first, seed = case["atoms"], case["type"], case["first"], case["seed"]
    n = len(sub)
    coords = [LATTICE[i] for i in sub]
    states = transitions = 0
    survived = False
    chk = 0.0
    masks = [list(mk) for k in range(0, n + 1) for mk in itertools.combinations(range(n), k)]
    users = _user_matrices(n, seed)
    for mask in masks:
        spec = {
            "coords": coords,
            "device": "mock",
            "basis": typ,
            "pulses": ([{"delay": case["delay"]}] if case.get("delay") else [])
            + [
                {"amp": ["const", first, 3.0], "det": ["const", first, 0.0], "phase": 0.0},
                {"amp": ["const", 24, 1.0], "det": ["const", 24, 1.0], "phase": 0.0},
            ],
        }
        if typ == "xy":
            spec["mag"] = [0.0, 1.0, 1.0] if sub[0] % 2 else None
        if mask:
            spec["slm"] = mask
        seq = kit.build_sequence(spec)
        T = seq.get_duration()
        end = float(first + case.get("delay", 0)) if mask else 0.0
        Ureg = R.interaction(seq, "xy" if typ == "xy" else "rydberg")
        for uname, um in users.items():
            base = Ureg if um is None else np.array(um)
            mags = sorted({abs(v) for v in base[np.triu_indices(n, 1)] if v != 0})
            cut_alph = [0.0, 1e-6]
            if mags:
                cut_alph += [mags[0], mags[-1] * 2]
                if um is not None:
                    # a user matrix is taken as given: a cutoff EQUAL to any of its entries keeps that entry (strictly-below rule), whatever a
                    # rounding of the cutoff to single precision would do (about half of all doubles round up)
                    cut_alph += mags[1:]
                if len(mags) > 1:
                    cut_alph.append(0.5 * (mags[0] + mags[1]))
            # every cutoff as a plain Python float (what users write) and, for one of them, as the numpy scalar it was computed as
            cut_alph = [float(c) for c in cut_alph] + ([np.float64(mags[0])] if mags else [])
            for cut in cut_alph:
                kw = {}
                if um is not None:
                    kw["interaction_matrix"] = um
                cfg = m.MPSConfig(dt=10, observables=[m.Occupation(evaluation_times=[1.0])], log_level=logging.CRITICAL, num_gpus_to_use=0, interaction_cutoff=cut, **kw)
                label = f"atoms={sub} type={typ} first={first} mask={mask} user={uname} cutoff={cut}"
                try:
                    pd = PulserData(sequence=seq, config=cfg, dt=10)
                    sds = list(pd.get_sequences())
                except Exception as e:
                    return result(False, sig=f"raises|{type(e).__name__}", msg=f"{label}: {type(e).__name__}: {e}", outcome="raise")
                states += 1
                if len(sds) != 1:
                    return result(False, sig="count", msg=f"{label}: {len(sds)} SequenceData for a noiseless run", outcome="count")
                sd = sds[0]
                qts = [0.0, T] + ([end - 1e-9, end, end + 1e-9, 0.5 * end, 1.0, case.get("delay", 0) - 1e-9, float(case.get("delay", 0))] if mask else [first - 1e-9, float(first)])
                qts = [t for t in qts if t >= 0.0]
                for t in qts:
                    transitions += 1
                    got = sd.interaction_matrix(t).detach().cpu().numpy()
                    exp = _expected(base, cut, mask, before=(t < end))
                    chk += float(np.abs(got).sum())
                    if got.shape != (n, n):
                        return result(False, sig="shape", msg=f"{label} t={t}: shape {got.shape}", outcome="shape")
                    tol = 1e-5 * max(1e-4, float(np.abs(exp).max()))  # Pulser rounds coordinates / distances to 1e-6 um
                    if np.abs(got - got.T).max() > 0 or np.abs(np.diag(got)).max() > 0:
                        return result(False, sig="symmetry", msg=f"{label} t={t}: not symmetric / non-zero diagonal: {got.tolist()}", outcome="sym")
                    if not np.abs(got - exp).max() <= tol:  # NaN fails
                        i, j = np.unravel_index(np.abs(got - exp).argmax(), got.shape)
                        where = "before" if t < end else "after"
                        kind = "mask" if (mask and (i in mask or j in mask)) else ("cutoff" if exp[i, j] == 0 or got[i, j] == 0 else "value")
                        return result(
                            False,
                            sig=f"adapter|{kind}|{where}",
                            msg=f"{label} t={t} (mask end {end}): entry ({i},{j}) is {got[i, j]:.9g}, expected {exp[i, j]:.9g}\n got {np.round(got, 6).tolist()}\n exp {np.round(exp, 6).tolist()}",
                            outcome="value",
                        )
                    survived = survived or bool(np.abs(exp).max() > 0)
    return result(True, outcome=["ok", states, round(chk, 3)], states=states, transitions=transitions, nontrivial=survived)


def _backend(case):
    n = len(kit.SHAPES[case["shape"]])
    first = case["first"]
    spec = {
        "coords": kit.SHAPES[case["shape"]],
        "device": "mock",
        "basis": "rydberg",
        "pulses": [
            {"amp": ["const", first, 40.0], "det": ["const", first, 10.0], "phase": 0.0},
            {"amp": ["const", 60 - first, 30.0], "det": ["const", 60 - first, -15.0], "phase": 0.5},
        ],
    }
    if case["mask"]:
        spec["slm"] = case["mask"]
    cfg = {"dt": case["dt"], "eval": [0.12, 0.5, 1.0], "precision": 1e-9}  # 0.12 T = 7.2 ns: an extra, off-grid step before the mask ends
    if case["inter"] == "custom":
        a = np.zeros((n, n))
        k = 0
        for i in range(n):
            for j in range(i + 1, n):
                a[i, j] = a[j, i] = [25.0, -12.0, 4.0][k % 3]
                k += 1
        cfg["interaction_matrix"] = a.tolist()
    if case["inter"] == "cutoff":
        cfg["interaction_cutoff"] = 1.0  # removes the next-nearest-neighbour coupling of line3 (0.4), keeps the others
    label = f"{case['backend']} {case['shape']} mask={case['mask']} dt={case['dt']} first={first} inter={case['inter']} optimiser_answer={case.get('perm')}"
    try:
        if case["backend"] == "sv":
            res, _ = runner.run_sv(spec, cfg, observables=runner.sv_observables(cfg["eval"], n, with_state=False))
        elif case.get("perm"):
            from mc import seams

            with seams.optimiser_answer(case["perm"]):
                res, _ = runner.run_mps(spec, dict(cfg, ordering=True))
        else:
            res, _ = runner.run_mps(spec, cfg)
    except Exception as e:
        return result(False, sig=f"raises|{type(e).__name__}", msg=f"{label}: {type(e).__name__}: {e}", outcome="raise")
    tags = ["occupation", "correlation_matrix", "energy"]
    tol = 1e-6 if case["backend"] == "sv" or n == 2 else (2e-2 if case.get("perm") else 5e-3)  # a permuted chain turns neighbours into next-nearest neighbours: larger splitting error (measured 9.6e-3)  # N=3 TDVP: splitting error of the long-range terms at dt*|H| ~ 1 (measured <= 3.3e-3; schedule errors move occupations by >= 0.2)
    ref = runner.Ref(spec, cfg, slm_rule="start")
    bad = runner.compare_results(res, ref, cfg["eval"], tol, tol, tags=tags)
    if bad and ref.straddle:
        ref2 = runner.Ref(spec, cfg, slm_rule="mid")
        # a straddling step may use either matrix: accept any consistent choice
        bad2 = runner.compare_results(res, ref2, cfg["eval"], tol, tol, tags=tags)
        if not bad2:
            bad = []
    occ = R.occupation(ref.states[-1], n)
    # how visible is the schedule?  distance of the never-masked dynamics from the scheduled one
    margin = 0.0
    if case["mask"]:
        spec_nomask = {k: v for k, v in spec.items() if k != "slm"}
        alt = runner.Ref(spec_nomask, cfg, slm_rule="start")
        margin = max(float(np.abs(R.occupation(alt.states[ref.index_of(t)], n) - R.occupation(ref.states[ref.index_of(t)], n)).max()) for t in cfg["eval"])
    if bad:
        return result(False, sig=f"backend|{case['backend']}|{'masked' if case['mask'] else 'nomask'}|{case['inter']}", msg=f"{label}: " + " ; ".join(bad[:3]), outcome="mismatch")
    return result(True, outcome=["ok", rnd(occ, 4)], nontrivial=bool(case["mask"]) and margin > 20 * tol, extra={"margin": margin})


def run_case(case):
    return _adapter(case) if case["family"] == "adapter" else _backend(case)
