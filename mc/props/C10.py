"""
C10 - MPS truncation and canonical form honour their contract.

Level 1 (E1): split_matrix on EVERY singular-value multiset over a spectrum alphabet x both centre
sides x max_error x max_rank x preserve_norm.  Level 2 (E2): every operation history up to the depth
bound over a 19-operation alphabet on fresh real MPS objects (several initial states, qubits and
qutrits, several precision / max_bond_dim settings); bond cap, left/right orthonormality around the
declared centre, norm == norm of the centre tensor and the truncation-error bound are evaluated on
every live object after every transition.
"""
import itertools

import numpy as np
import torch

from mc import mps_bfs
from mc.core import result

ID = "C10"
LEVEL = "model_checking"
ENGINE = "E2 operation-history explorer (all histories up to depth d on real MPS objects) + E1 product over singular-value multisets"
RULE = (
    "level 1: case = (k, max_error, max_rank) -> every multiset of k singular values from the alphabet x "
    "orth_center_right x preserve_norm; level 2: case = (N, dim, initial state, precision, max_bond_dim) -> "
    "every history of length 1..depth over the operation alphabet replayed on fresh objects; states = "
    "distinct (dense vector, bond dims, centre) reached; non-trivial = history contains a truncating or "
    "re-centring operation (all do, by alphabet construction)"
)
ASSUMPTIONS = [
    "the cap is 'binding' whenever a resulting bond equals max_bond_dim; then only the cap and canonical form are required",
    "truncation-error bound: (N-1)*precision for one sweep (discarded weight <= precision^2 at each of the N-1 bonds, triangle inequality)",
]
CHUNK = 1
SPEC = [0.0, 1e-12, 1e-6, 1e-3, 0.5, 1.0]


def _cfg(tier):
    if tier == "quick":
        return dict(ns=[2, 3], dims=[2, 3], depth=2, precs=[1e-2, 1e-8], caps=[1, 2, 64], kmax=4, inits=mps_bfs.INITIALS[:4] + ["thr_lo", "thr_hi", "near_iso"])
    return dict(ns=[2, 3, 4, 6], dims=[2, 3], depth=3, precs=[1e-2, 1e-5, 1e-8], caps=[1, 2, 4, 64], kmax=5, inits=mps_bfs.INITIALS)


def bounds(tier, seed):
    c = _cfg(tier)
    c["operation_alphabet"] = mps_bfs.OPS
    c["spectrum_alphabet"] = SPEC
    c["note"] = "N=6 (thorough) is explored to depth 2; N>=4 with the initial states product/ghz/random"
    return c


def cases(tier, seed):
    c = _cfg(tier)
    for k in range(1, c["kmax"] + 1):
        for me, mr in itertools.product([1e-2, 1e-5, 1e-12], sorted({1, 2, k, 64})):
            yield {"level": 1, "k": k, "max_error": me, "max_rank": mr, "seed": seed}
    for n, dim, init, p, cap in itertools.product(c["ns"], c["dims"], c["inits"], c["precs"], c["caps"]):
        depth = c["depth"]
        if n >= 6:
            depth = 2
            if init not in ("product", "ghz", "random"):
                continue
        yield {"level": 2, "N": n, "dim": dim, "init": init, "precision": p, "cap": cap, "depth": depth, "seed": seed}


def _level1(case):
    from emu_mps.utils import split_matrix

    k, me, mr, seed = case["k"], case["max_error"], case["max_rank"], case["seed"]
    r = np.random.RandomState(seed + k)
    rows, cols = k + 1, k + 2
    u, _ = np.linalg.qr(r.normal(size=(rows, rows)) + 1j * r.normal(size=(rows, rows)))
    w, _ = np.linalg.qr(r.normal(size=(cols, cols)) + 1j * r.normal(size=(cols, cols)))
    count = 0
    for sv in itertools.combinations_with_replacement(SPEC, k):
        s = np.array(sorted(sv, reverse=True))
        for right in (True, False):
            # the Gram matrix is built on the side of the orthogonality centre: use k x cols / rows x k shapes
            m = (u[:, :k] * s) @ w[:k, :] if right else ((w[:, :k] * s) @ u[:k, :])
            for pn in (False, True):
                count += 1
                left, rght = split_matrix(torch.tensor(m), max_error=me, max_rank=mr, orth_center_right=right, preserve_norm=pn)
                L, Rm = left.numpy(), rght.numpy()
                kept = L.shape[1]
                tag = f"singular values {s.tolist()} orth_center_right={right} preserve_norm={pn} max_error={me} max_rank={mr}"
                if kept != Rm.shape[0]:
                    return count, ("split-shapes", f"{tag}: factor shapes {L.shape} {Rm.shape}")
                if kept > mr and not (kept == 1):
                    return count, ("rank-cap", f"{tag}: kept rank {kept} > max_rank")
                iso = (L.conj().T @ L) if right else (Rm @ Rm.conj().T)
                if not np.abs(iso - np.eye(kept)).max() <= 1e-10:  # NaN fails
                    return count, ("not-isometric", f"{tag}: the factor away from the centre is not an isometry")
                nm = np.linalg.norm(m)
                rec = L @ Rm
                if pn:
                    if abs(np.linalg.norm(rec) - nm) > 1e-10 * max(nm, 1e-300) and nm > 0 and np.linalg.norm(rec) > 0:
                        return count, ("preserve-norm", f"{tag}: |LR| = {np.linalg.norm(rec)} != |m| = {nm}")
                    continue
                disc = np.linalg.norm(m - rec) ** 2
                cap_binds = kept >= mr
                if not cap_binds and disc > me**2 + 1e-13 * max(nm**2, 1e-300):
                    return count, ("discarded-weight", f"{tag}: discarded weight {disc:.3e} > max_error^2 = {me**2:.1e} although the rank cap does not bind (kept {kept})")
                if cap_binds:
                    # Eckart-Young: nothing better than keeping the largest max_rank values
                    best = float((np.sort(s)[: max(0, k - kept)] ** 2).sum())
                    if disc > best + me**2 + 1e-13 * max(nm**2, 1e-300):
                        return count, ("not-best-rank", f"{tag}: discarded {disc:.3e} but the best rank-{kept} approximation discards {best:.3e}")
    return count, None


def run_case(case):
    if case["level"] == 1:
        count, err = _level1(case)
        if err:
            return result(False, sig=f"split_matrix|{err[0]}", msg=err[1], outcome="viol", transitions=count)
        return result(True, outcome=["l1", case["k"], case["max_error"], case["max_rank"], count], states=count, transitions=count)
    states = set()
    total_s = total_t = 0
    for d in range(1, case["depth"] + 1):
        stats, err = mps_bfs.explore(case["N"], case["dim"], case["init"], case["precision"], case["cap"], d, case["seed"], "C10")
        if err:
            return result(False, sig=f"history|{err[0]}", msg=err[1], outcome="viol")
        total_s = max(total_s, stats[0])
        total_t += stats[1]
    return result(True, outcome=["l2", case["N"], case["dim"], case["init"], total_s], states=total_s, transitions=total_t)
