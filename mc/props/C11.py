"""
C11 - MPS/MPO operations are faithful to their dense counterparts.

E2: the same operation-history explorer as C10 with a dense reference model advanced in lock-step:
every transition (orthogonalize, truncate, +, c*, *=, apply, MPO.apply_to, entanglement entropy,
correlation matrix, expect_batch, norm, inner, overlap, MPO.expect) is compared with the same
operation on dense vectors, and EVERY live object of the history (operands, earlier results, the
MPO) is re-contracted after every transition and must be unchanged unless the operation is
documented in-place.  E1 blocks: every amplitude dictionary with <= k basis strings over the three
bases through MPS.from_state_amplitudes; every (QuditOp, target set) tensor term and 2-term sums
through MPO.from_operator_repr; all pairs through MPO@MPO, MPO+MPO, c*MPO, apply_to, expect.
"""
import itertools

import numpy as np
import torch

from mc import mps_bfs
from mc.core import result
from mc.ref.dense_ham import kron_all
from mc.ref.mps_dense import mpo_to_mat, mps_to_vec

ID = "C11"
LEVEL = "model_checking"
ENGINE = "E2 operation-history explorer with a dense reference model in lock-step + E1 products over abstract representations"
RULE = (
    "histories: case = (N, dim, initial state, precision, max_bond_dim) -> every history of length 1..depth "
    "over the 16-operation alphabet on fresh objects, all live objects re-contracted after each transition; "
    "constructors: every amplitude dictionary (<=k strings, amplitude alphabet) per basis; operators: every "
    "tensor term and all pairs; states = distinct (dense vector, bonds, centre); transitions = API calls"
)
ASSUMPTIONS = [
    "values are compared with the dense contraction of the implementation's own (possibly truncated) tensors to 1e-10; the distance to the ideal dense result is bounded by (N-1)*precision whenever the bond cap does not bind",
    "MPO @ MPO truncates with the package defaults (1e-5)",
]
CHUNK = 1
AMPS = [1.0, -1.0, 1j, 0.5]
BASES = {"rg": ("r", "g"), "01": ("0", "1"), "rgx": ("r", "g", "x")}


def _cfg(tier):
    if tier == "quick":
        return dict(ns=[2, 3], dims=[2, 3], depth=2, precs=[1e-8], caps=[2, 64], kmax=2, inits=mps_bfs.INITIALS[:4] + ["ghz_padded"], nsc=[2, 3])
    return dict(ns=[2, 3, 4, 6], dims=[2, 3], depth=3, precs=[1e-5, 1e-8], caps=[1, 2, 64], kmax=3, inits=mps_bfs.INITIALS, nsc=[2, 3, 4])


def bounds(tier, seed):
    c = _cfg(tier)
    c["operation_alphabet"] = mps_bfs.OPS
    c["amplitude_alphabet"] = [str(a) for a in AMPS] + ["seeded"]
    c["bases"] = list(BASES)
    return c


def cases(tier, seed):
    c = _cfg(tier)
    for n, dim, init, p, cap in itertools.product(c["ns"], c["dims"], c["inits"], c["precs"], c["caps"]):
        depth = c["depth"]
        if n >= 6:
            depth = 2
            if init not in ("product", "ghz", "random"):
                continue
        yield {"family": "history", "N": n, "dim": dim, "init": init, "precision": p, "cap": cap, "depth": depth, "seed": seed}
    if tier == "quick":
        # four sites: the smallest chain with a middle bond that the reduced QR of a sweep does not shrink (unused channels survive there)
        for dim in (2, 3):
            yield {"family": "history", "N": 4, "dim": dim, "init": "ghz_padded", "precision": 1e-8, "cap": 64, "depth": 1, "seed": seed}
    for n in c["nsc"]:
        for b in BASES:
            if b == "rgx" and n > 3:
                continue
            yield {"family": "amplitudes", "N": n, "basis": b, "kmax": c["kmax"] if n < 4 else 2, "seed": seed}
        for b in BASES:
            yield {"family": "operators", "N": n, "basis": b, "seed": seed}


def _letters(b):
    # letters ordered by emulator index: 0 = ground-like, 1 = excited ('one'), 2 = leakage
    return {"rg": "gr", "01": "01", "rgx": "grx"}[b]


def _ref_vec(n, d, b):
    L = _letters(b)
    dim = len(L)
    v = np.zeros(dim**n, dtype=complex)
    for s, a in d.items():
        v[int("".join(str(L.index(ch)) for ch in s), dim)] += a
    return v


def _amplitudes(case):
    from emu_mps import MPS

    n, b, seed = case["N"], case["basis"], case["seed"]
    L = _letters(b)
    r = np.random.RandomState(3 + seed)
    amps = AMPS + [complex(np.round(r.normal() + 1j * r.normal(), 3))]
    strings = ["".join(s) for s in itertools.product(L, repeat=n)]
    count = 0
    for k in range(1, case["kmax"] + 1):
        for combo in itertools.combinations(strings, k):
            for a in itertools.product(amps, repeat=k):
                d = dict(zip(combo, a))
                count += 1
                m = MPS.from_state_amplitudes(eigenstates=BASES[b], amplitudes=d)
                ref = _ref_vec(n, d, b)
                ref = ref / np.linalg.norm(ref)
                got = mps_to_vec(m.factors)
                if not np.abs(got - ref).max() <= 1e-9:  # NaN fails
                    return count, ("MPS.from_state_amplitudes", f"basis {BASES[b]} amplitudes {d}: got {np.round(got, 6).tolist()} expected {np.round(ref, 6).tolist()}")
                if not abs(float(m.norm()) - 1) <= 1e-9:  # NaN fails
                    return count, ("MPS.from_state_amplitudes-norm", f"basis {BASES[b]} amplitudes {d}: norm {float(m.norm())}")
    return count, None


def _qops(b, seed):
    L = _letters(b)
    g, e = L[0], L[1]
    r = np.random.RandomState(41 + seed)
    c = (r.normal(size=4) + 1j * r.normal(size=4)).round(3)
    q = {
        "n": {e + e: 1.0},
        "X": {g + e: 1.0, e + g: 1.0},
        "Y": {g + e: -1j, e + g: 1j},
        "s+": {e + g: 1.0},
        "mix": {g + g: complex(c[0]), g + e: complex(c[1]), e + g: complex(c[2]), e + e: complex(c[3])},
    }
    if len(L) == 3:
        q["xr"] = {"xr": 1.0}
        q["gx+xx"] = {"gx": 0.5, "xx": -1.0}
    return q


def _qmat(qop, b):
    L = _letters(b)
    dim = len(L)
    m = np.zeros((dim, dim), dtype=complex)
    for k, v in qop.items():
        m[L.index(k[0]), L.index(k[1])] += v
    return m


def _operators(case):
    from emu_mps import MPO, MPS

    n, b, seed = case["N"], case["basis"], case["seed"]
    q = _qops(b, seed)
    dim = len(_letters(b))
    subsets = [s for k in range(1, n + 1) for s in itertools.combinations(range(n), k)]
    terms = [[(name, list(s))] for name in q for s in subsets]
    for a, c2 in itertools.permutations(list(q)[:4], 2):
        for s1, s2 in itertools.permutations([s for s in subsets if len(s) == 1], 2):
            terms.append([(a, list(s1)), (c2, list(s2))])

    def ref_term(t):
        mats = [np.eye(dim, dtype=complex)] * n
        mats = list(mats)
        for name, targets in t:
            for x in targets:
                mats[x] = _qmat(q[name], b)
        return kron_all(mats)

    def build(full):
        rep = [(c, [(q[name], set(tg)) for name, tg in t]) for c, t in full]
        return MPO.from_operator_repr(eigenstates=BASES[b], n_qudits=n, operations=rep)

    r = np.random.RandomState(seed + n)
    psi = mps_bfs.random_factors(n, dim, [min(dim, 3)] * (n - 1), seed + 3)
    state = MPS(psi, precision=1e-10, eigenstates=BASES[b], num_gpus_to_use=0)
    v = mps_to_vec(state.factors)
    calls = 0
    built = []
    for i, t in enumerate(terms):
        for full in ([(1.0, t)], [(0.5 - 1j, t), (2.0, terms[(i + 7) % len(terms)])]):
            op = build(full)
            ref = sum(c * ref_term(tt) for c, tt in full)
            calls += 3
            got = mpo_to_mat(op.factors)
            if not np.abs(got - ref).max() <= 1e-12:  # NaN fails
                return calls, ("MPO.from_operator_repr", f"basis {BASES[b]} N={n} operations {full}: MPO differs from the Kronecker construction")
            ex = complex(op.expect(state))
            if not abs(ex - np.vdot(v, ref @ v)) <= 1e-10:  # NaN fails
                return calls, ("MPO.expect", f"basis {BASES[b]} N={n} operations {full}: {ex} vs {np.vdot(v, ref @ v)}")
            w = mps_to_vec(op.apply_to(state).factors)
            if np.linalg.norm(w - ref @ v) > 1e-9:
                return calls, ("MPO.apply_to", f"basis {BASES[b]} N={n} operations {full}")
            if not np.abs(mps_to_vec(state.factors) - v).max() <= 1e-13:  # NaN fails
                return calls, ("operand-mutated-by-MPO.apply_to", f"basis {BASES[b]} N={n} operations {full}")
        built.append((build([(1.0, t)]), ref_term(t)))
    step = max(1, len(built) // 12)
    for i, (o1, r1) in enumerate(built):
        for j in range(0, len(built), step):
            o2, r2 = built[j]
            calls += 3
            pr = mpo_to_mat((o1 @ o2).factors)
            if not np.abs(pr - r1 @ r2).max() <= 1e-4 * max(1.0, np.abs(r1 @ r2).max()):  # NaN fails
                return calls, ("MPO.matmul", f"basis {BASES[b]} N={n} {terms[i]} @ {terms[j]}: max deviation {np.abs(pr - r1 @ r2).max():.2e}")
            sm = mpo_to_mat((o1 + o2).factors)
            if not np.abs(sm - (r1 + r2)).max() <= 1e-12:  # NaN fails
                return calls, ("MPO.add", f"basis {BASES[b]} N={n} {terms[i]} + {terms[j]}")
            sc = mpo_to_mat(((2 - 1j) * o1).factors)
            if not np.abs(sc - (2 - 1j) * r1).max() <= 1e-12:  # NaN fails
                return calls, ("MPO.rmul", f"basis {BASES[b]} N={n} {terms[i]}")
            if np.abs(mpo_to_mat(o1.factors) - r1).max() > 1e-12 or np.abs(mpo_to_mat(o2.factors) - r2).max() > 1e-12:
                return calls, ("operand-mutated-by-MPO-algebra", f"basis {BASES[b]} N={n} {terms[i]} {terms[j]}")
    return calls, None


def run_case(case):
    fam = case["family"]
    if fam == "history":
        total_s = total_t = 0
        for d in range(1, case["depth"] + 1):
            stats, err = mps_bfs.explore(case["N"], case["dim"], case["init"], case["precision"], case["cap"], d, case["seed"], "C11")
            if err:
                return result(False, sig=f"history|{err[0]}", msg=err[1], outcome="viol")
            total_s = max(total_s, stats[0])
            total_t += stats[1]
        return result(True, outcome=["h", case["N"], case["dim"], case["init"], total_s], states=total_s, transitions=total_t)
    count, err = _amplitudes(case) if fam == "amplitudes" else _operators(case)
    if err:
        return result(False, sig=f"{fam}|{err[0]}", msg=err[1], outcome="viol", transitions=count)
    return result(True, outcome=[fam, case["N"], case["basis"], count], states=count, transitions=count)
