"""
C32 - qubit-order optimisation returns a valid, no-worse permutation.

E1/E3: every symmetric matrix over a value alphabet (N<=3) and every 0/1 sparsity pattern (N=4,5)
is passed to minimize_bandwidth; the optimiser's random restarts are owned by the explorer:
torch.randperm is scripted so that with samples=1 EVERY initial permutation p in S_N is explored;
the default call (100 restarts, scripted from a fixed seeded stream) is run as well.  Helpers: for
every p in S_N (N<=5) inversion and the string/list/tuple/tensor permutation helpers are compared
on labelled inputs.
"""
import itertools

import numpy as np
import torch

from mc.core import result

ID = "C32"
LEVEL = "model_checking"
ENGINE = "E3 environment-answer explorer over the optimiser's random restarts (every initial permutation) + E1 product over matrices"
RULE = (
    "case = one symmetric matrix (all matrices over {0,1,0.5,-2} for N<=3, all 0/1 patterns for N=4,5, "
    "structured larger ones); inside a case every restart permutation in S_N (N<=4; N=5: 120) is scripted "
    "through torch.randperm with samples=1, plus the default call; helpers: case = N -> every p in S_N; "
    "non-trivial = matrix has a non-zero off-diagonal entry"
)
ASSUMPTIONS = ["weighted bandwidth = max |M_ij| * |i-j| of the permuted |matrix|, as documented"]
CHUNK = 2
VALS = [0.0, 1.0, 0.5, -2.0]


def _sym(n, vals):
    pairs = list(itertools.combinations(range(n), 2))
    for combo in itertools.product(vals, repeat=len(pairs)):
        m = [[0.0] * n for _ in range(n)]
        for (i, j), v in zip(pairs, combo):
            m[i][j] = m[j][i] = v
        yield m


def _structured(n, kind):
    m = np.zeros((n, n))
    if kind == "ring":
        for i in range(n):
            m[i, (i + 1) % n] = m[(i + 1) % n, i] = 1.0
    elif kind == "star":
        m[0, 1:] = m[1:, 0] = 1.0
    elif kind == "r6":
        x = np.arange(n) * 1.0
        pos = np.stack([x % 5, x // 5], 1)
        for i in range(n):
            for j in range(i + 1, n):
                m[i, j] = m[j, i] = 1.0 / np.linalg.norm(pos[i] - pos[j]) ** 6
    elif kind == "shuffled_chain":
        p = np.random.RandomState(n).permutation(n)
        for a in range(n - 1):
            m[p[a], p[a + 1]] = m[p[a + 1], p[a]] = 1.0 + 0.1 * a
    return m.tolist()


def bounds(tier, seed):
    return {
        "value_matrices": "all symmetric matrices over {0,1,0.5,-2}: N=1,2,3" + ("; N=4 thorough" if tier == "thorough" else ""),
        "pattern_matrices": "all 0/1 patterns N=4" + (", N=5, N=6 (every 7th)" if tier == "thorough" else ", N=5 (every 16th)"),
        "restarts": "every p in S_N scripted through torch.randperm (samples=1), N<=4 (N=5: thorough)",
        "default_call": "samples=100 with a scripted seeded randperm stream",
        "structured": ["ring", "star", "r6", "shuffled_chain"],
        "block5": "all 59049 symmetric 5x5 matrices over {0,1,3} (quick: every third block of 729), identity start + chained second call", "helpers": "all p in S_N, N<=5 (single- and multi-character labels, integers)" + (" and N=6" if tier == "thorough" else ""),
    }


def cases(tier, seed):
    for n in (1, 2, 3):
        for m in _sym(n, VALS):
            yield {"family": "matrix", "M": m, "all_restarts": True, "default": True, "seed": seed}
    if tier == "thorough":
        for k, m in enumerate(_sym(4, VALS)):
            yield {"family": "matrix", "M": m, "all_restarts": k % 8 == 0, "default": k % 64 == 0, "seed": seed}
    for k, m in enumerate(_sym(4, [0.0, 1.0])):
        yield {"family": "matrix", "M": m, "all_restarts": True, "default": tier == "thorough" or k % 4 == 0, "seed": seed}
    for k, m in enumerate(_sym(5, [0.0, 1.0])):
        if tier == "quick" and k % 16:
            continue
        yield {"family": "matrix", "M": m, "all_restarts": tier == "thorough" and k % 8 == 0, "default": k % 64 == 0, "single": True, "seed": seed}
    if tier == "thorough":
        for k, m in enumerate(_sym(6, [0.0, 1.0])):
            if k % 7 == 0:
                yield {"family": "matrix", "M": m, "all_restarts": False, "default": False, "single": True, "seed": seed}
    # N=5 with three weights, in blocks of 729 matrices: identity start only (samples=0) and, chained, the optimiser applied again to its own
    # output (an input that is already well ordered - the state reached from elsewhere)
    nblocks = 3**10 // 729
    for b in range(nblocks):
        if tier == "quick" and b % 3:
            continue
        yield {"family": "block5", "block": b, "seed": seed}
    for n in (10, 30) if tier == "thorough" else (10,):
        for kind in ("ring", "star", "r6", "shuffled_chain"):
            yield {"family": "matrix", "M": _structured(n, kind), "all_restarts": False, "default": True, "seed": seed}
    for n in range(1, 6 if tier == "quick" else 7):
        yield {"family": "helpers", "N": n}
    # E3: every ORDERED PAIR (thorough: also triples for N=3) of answers of the random source, i.e. two restarts in one call
    for m in _sym(3, VALS):
        yield {"family": "answers", "M": m, "depth": 2 if tier == "quick" else 3, "seed": seed}
    for k, m in enumerate(_sym(4, [0.0, 1.0])):
        if tier == "thorough" or k % 8 == 1:
            yield {"family": "answers", "M": m, "depth": 2, "seed": seed}
    # N=5 is the smallest size at which a restart can beat the identity start without a single accepted step (star-like graphs): every first
    # answer x the rotations and the reversal as second answer
    if tier == "thorough":
        for k, m in enumerate(_sym(5, [0.0, 1.0])):
            if k % 4 == 1:  # 256 of the 1024 graphs (about 45 ms per call, 720 calls each)
                yield {"family": "answers", "M": m, "depth": 2, "second": "rotations", "seed": seed}
    if True:
        # quick: the hub graphs among them (every inner hub position - with the hub at an end the original bandwidth is already the largest
        # possible, nothing can exceed it - and no or one extra edge between leaves)
        for hub in (1, 2, 3):
            leaves = [i for i in range(5) if i != hub]
            for extra in [None] + list(itertools.combinations(leaves, 2)):
                m = [[0.0] * 5 for _ in range(5)]
                for i in leaves:
                    m[i][hub] = m[hub][i] = 1.0
                if extra:
                    m[extra[0]][extra[1]] = m[extra[1]][extra[0]] = 1.0
                yield {"family": "answers", "M": m, "depth": 2, "second": "rotations", "seed": seed}
    # the helpers called again with the SAME permutation tensor object after the caller changed it in place (all ordered pairs of permutations)
    for n in (2, 3, 4):
        yield {"family": "helpers_history", "N": n}


def _bw(m):
    n = m.shape[0]
    i, j = np.indices((n, n))
    return float(np.abs(m * (j - i)).max()) if n else 0.0


class ScriptedRandperm:
    def __init__(self, script):
        self.script = list(script)
        self.calls = 0

    def __call__(self, n, *a, **k):
        p = self.script[self.calls % len(self.script)]
        self.calls += 1
        assert len(p) == n
        out = k.get("out")
        if out is not None:  # torch.randperm(n, out=buffer) fills and returns the caller's buffer: the seam must keep that aliasing
            out.copy_(torch.tensor(p, dtype=out.dtype))
            return out
        return torch.tensor(p, dtype=torch.int64)


def _call(M, samples, script):
    from emu_mps.optimatrix import optimiser

    orig = torch.randperm
    torch.randperm = ScriptedRandperm(script)
    try:
        return optimiser.minimize_bandwidth(torch.tensor(M, dtype=torch.float64), samples=samples)
    finally:
        torch.randperm = orig


def _verify(M, perm, what):
    n = len(M)
    p = [int(x) for x in perm.tolist()]
    if sorted(p) != list(range(n)):
        return f"{what}: result {p} is not a permutation of 0..{n - 1}"
    A = np.abs(np.array(M, dtype=float))
    B = A[np.ix_(p, p)]
    if _bw(B) > _bw(A) * (1 + 1e-12):
        return f"{what}: bandwidth grew from {_bw(A)} to {_bw(B)} with permutation {p}"
    return None


def run_case(case):
    if case["family"] == "helpers":
        from emu_mps.optimatrix import permutations as P

        n = case["N"]
        labels = [chr(ord("a") + k) for k in range(n)]
        words = [f"q{10 + k}" for k in range(n)]  # multi-character labels (a one-element list must stay a one-element list)
        ints = list(range(100, 100 + n))
        vec = torch.arange(n, dtype=torch.float64) * 1.5 + 1
        mat = torch.arange(n * n, dtype=torch.float64).reshape(n, n)
        cnt = 0
        for p in itertools.permutations(range(n)):
            cnt += 1
            pt = torch.tensor(p, dtype=torch.int64)
            inv = P.inv_permutation(pt)
            if inv[pt].tolist() != list(range(n)) or pt[inv].tolist() != list(range(n)):
                return result(False, sig="helpers|inv_permutation", msg=f"inv_permutation({list(p)}) = {inv.tolist()}", outcome="viol")
            li = P.permute_list(labels, pt)
            tu = P.permute_tuple(tuple(labels), pt)
            st = P.permute_string("".join(labels), pt)
            ve = P.permute_tensor(vec, pt)
            ma = P.permute_tensor(mat, pt) if n > 0 else mat
            exp = [labels[k] for k in p]
            try:
                lw, tw, lint = P.permute_list(words, pt), P.permute_tuple(tuple(words), pt), P.permute_list(ints, pt)
            except Exception as e:
                return result(False, sig="helpers|raises", msg=f"N={n} p={list(p)}: permuting {words} / {ints} raised {type(e).__name__}: {e}", outcome="viol")
            if lw != [words[k] for k in p] or list(tw) != [words[k] for k in p] or not isinstance(tw, tuple) or lint != [ints[k] for k in p]:
                return result(False, sig="helpers|multi-character-labels", msg=f"N={n} p={list(p)}: list {lw} tuple {tw} ints {lint} expected {[words[k] for k in p]}", outcome="viol")
            if li != exp or list(tu) != exp or st != "".join(exp):
                return result(False, sig="helpers|list-tuple-string", msg=f"p={list(p)}: list {li} tuple {tu} string {st} expected {exp}", outcome="viol")
            if ve.tolist() != [vec[k].item() for k in p]:
                return result(False, sig="helpers|tensor1d", msg=f"p={list(p)}: {ve.tolist()}", outcome="viol")
            if any(ma[a, b].item() != mat[p[a], p[b]].item() for a in range(n) for b in range(n)):
                return result(False, sig="helpers|tensor2d", msg=f"p={list(p)}", outcome="viol")
            back = [P.permute_list(li, inv), list(P.permute_tuple(tu, inv)), list(P.permute_string(st, inv))]
            if any(b != labels for b in back) or P.permute_tensor(ve, inv).tolist() != vec.tolist() or not torch.equal(P.permute_tensor(ma, inv), mat):
                return result(False, sig="helpers|inverse-does-not-undo", msg=f"p={list(p)}", outcome="viol")
        return result(True, outcome=["helpers", n, cnt], states=cnt, transitions=8 * cnt)

    if case["family"] == "helpers_history":
        from emu_mps.optimatrix import permutations as P

        n = case["N"]
        labels = [chr(ord("a") + k) for k in range(n)]
        cnt = 0
        perms = list(itertools.permutations(range(n)))
        for p0, p1 in itertools.product(perms, repeat=2):
            pt = torch.tensor(p0, dtype=torch.int64)
            first = (P.permute_list(labels, pt), P.permute_tuple(tuple(labels), pt), P.permute_string("".join(labels), pt), P.permute_tensor(torch.arange(n), pt).tolist(), P.inv_permutation(pt).tolist())
            pt.copy_(torch.tensor(p1, dtype=torch.int64))
            second = (P.permute_list(labels, pt), P.permute_tuple(tuple(labels), pt), P.permute_string("".join(labels), pt), P.permute_tensor(torch.arange(n), pt).tolist(), P.inv_permutation(pt).tolist())
            cnt += 2
            for q, got in ((p0, first), (p1, second)):
                exp = [labels[k] for k in q]
                inv = [list(q).index(k) for k in range(n)]
                if got[0] != exp or list(got[1]) != exp or got[2] != "".join(exp) or got[3] != list(q) or got[4] != inv:
                    return result(
                        False,
                        sig="helpers|same-tensor-changed-in-place",
                        msg=f"permutation tensor first {list(p0)}, then changed in place to {list(p1)}: with {list(q)} got list {got[0]} tuple {got[1]} string {got[2]} tensor {got[3]} inverse {got[4]}, expected {exp}",
                        outcome="viol",
                    )
        return result(True, outcome=["helpers_history", n, cnt], states=cnt, transitions=5 * cnt, nontrivial=True)

    if case["family"] == "answers":
        M = case["M"]
        n = len(M)
        cnt = 0
        perms = list(itertools.permutations(range(n)))
        try:
            scripts = itertools.product(perms, repeat=case["depth"])
            if case.get("second") == "rotations":
                rots = [tuple((i + r) % n for i in range(n)) for r in range(n)] + [tuple(range(n))[::-1]]
                scripts = itertools.product(perms, rots)
            for script in scripts:
                out = _call(M, case["depth"], [list(q) for q in script])
                cnt += 1
                err = _verify(M, out, f"restarts from {[list(q) for q in script]}")
                if err:
                    return result(False, sig="answers|" + err.split(":")[1][:30].strip(), msg=f"{err}; M={M}", outcome="viol", states=cnt, transitions=cnt)
        except (AssertionError, NotImplementedError, ValueError, IndexError, RuntimeError) as e:
            return result(False, sig=f"raises|{type(e).__name__}", msg=f"minimize_bandwidth raised {type(e).__name__}: {e}; M={M}", outcome="raise")
        return result(True, outcome=["answers", n, cnt], states=cnt, transitions=cnt, nontrivial=any(M[i][j] != 0 for i in range(n) for j in range(n) if i != j))

    if case["family"] == "block5":
        vals5 = [0.0, 1.0, 3.0]
        pairs = list(itertools.combinations(range(5), 2))
        cnt = 0
        for k in range(case["block"] * 729, (case["block"] + 1) * 729):
            digits = [(k // 3**i) % 3 for i in range(10)]
            M = [[0.0] * 5 for _ in range(5)]
            for (i, j), dgt in zip(pairs, digits):
                M[i][j] = M[j][i] = vals5[dgt]
            out = _call(M, 0, [[0, 1, 2, 3, 4]])
            cnt += 1
            err = _verify(M, out, "identity start (samples=0)")
            if err:
                return result(False, sig="block5|" + err.split(":")[1][:30].strip(), msg=f"{err}; M={M}", outcome="viol", states=cnt, transitions=cnt)
            p1 = [int(x) for x in out.tolist()]
            M2 = [[M[p1[a]][p1[b]] for b in range(5)] for a in range(5)]
            out2 = _call(M2, 0, [[0, 1, 2, 3, 4]])
            cnt += 1
            err = _verify(M2, out2, "second call on the already optimised matrix")
            if err:
                return result(False, sig="chained|" + err.split(":")[1][:30].strip(), msg=f"{err}; M (already optimised once)={M2}", outcome="viol", states=cnt, transitions=cnt)
        return result(True, outcome=["block5", case["block"]], states=cnt, transitions=cnt, nontrivial=True)
    M = case["M"]
    n = len(M)
    nontriv = any(M[i][j] != 0 for i in range(n) for j in range(n) if i != j)
    runs = 0
    perms_seen = set()
    try:
        if case.get("all_restarts"):
            for p in itertools.permutations(range(n)):
                out = _call(M, 1, [list(p)])
                runs += 1
                perms_seen.add(tuple(out.tolist()))
                err = _verify(M, out, f"restart from {list(p)}")
                if err:
                    return result(False, sig="restart|" + err.split(":")[1][:30].strip(), msg=f"{err}; M={M}", outcome="viol")
        elif case.get("single"):
            r = np.random.RandomState(case["seed"] + n)
            p = r.permutation(n).tolist()
            out = _call(M, 1, [p])
            runs += 1
            perms_seen.add(tuple(out.tolist()))
            err = _verify(M, out, f"restart from {p}")
            if err:
                return result(False, sig="restart|" + err.split(":")[1][:30].strip(), msg=f"{err}; M={M}", outcome="viol")
        if perms_seen and n >= 3:
            # chained: optimise the optimiser's own output again (identity start only and one restart)
            p1 = list(sorted(perms_seen)[0])
            M2 = [[M[p1[a]][p1[b]] for b in range(n)] for a in range(n)]
            for samples, script in ((0, [list(range(n))]), (1, [list(range(n))[::-1]])):
                out2 = _call(M2, samples, script)
                runs += 1
                err = _verify(M2, out2, f"second call (samples={samples}) on the already optimised matrix")
                if err:
                    return result(False, sig="chained|" + err.split(":")[1][:30].strip(), msg=f"{err}; M (already optimised once)={M2}", outcome="viol")
        if case.get("default"):
            r = np.random.RandomState(case["seed"] + 3 * n)
            script = [r.permutation(n).tolist() for _ in range(100)]
            out = _call(M, 100, script)
            runs += 1
            perms_seen.add(tuple(out.tolist()))
            err = _verify(M, out, "default call")
            if err:
                return result(False, sig="default|" + err.split(":")[1][:30].strip(), msg=f"{err}; M={M}", outcome="viol")
    except (AssertionError, NotImplementedError, ValueError, IndexError, RuntimeError) as e:
        return result(False, sig=f"raises|{type(e).__name__}", msg=f"minimize_bandwidth raised {type(e).__name__}: {e}; M={M}", outcome="raise")
    return result(True, outcome=[n, sorted(perms_seen)[:3], runs], states=len(perms_seen), transitions=runs, nontrivial=nontriv)
