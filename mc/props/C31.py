"""
C31 - every pulser-core version the package accepts can run the emulators.

E1 over configurations: every pulser-core distribution discoverable offline (site-packages of /venv, the wheelhouse) that satisfies the
version specifier read from pyproject.toml and ci/*/pyproject.toml - in this sandbox exactly the installed one - x backend path
{sv, sv+Lindblad, sv+SPAM, mps-tdvp, mps-dmrg, mps-noisy, mps+SPAM} x EVERY observable class exported by emu_sv.__all__ / emu_mps.__all__,
each constructed, run (2 trajectories where the path has shot-to-shot noise), stored and aggregated.  The space is small by nature
and is covered completely.  Oracle: construction and run succeed and a value is stored at each requested time.
"""
import contextlib
import glob
import importlib.metadata
import io
import logging
import re

import numpy as np

from mc import pulser_kit as kit
from mc.core import result

ID = "C31"
LEVEL = "model_checking"
ENGINE = "E1 complete product (admitted pulser-core versions available offline) x (backend path) x (every exported observable class)"
RULE = (
    "case = (pulser-core version, backend path, observable class); one real construction + run + aggregation; distinct = distinct cases; "
    "non-trivial = the observable produced a value at both requested times"
)
ASSUMPTIONS = [
    "only pulser-core versions present offline can be exercised: the installed one and any wheel in /opt/veriftools/wheels (none other present); other admitted versions are out of reach in this sandbox",
    "a version that is admitted but cannot be imported here is reported as not covered, never as passing",
    "with several trajectories Pulser's Results.aggregate drops observables that declare SKIP / SKIP_WARN (EnergyVariance, StateResult): their absence there is Pulser's semantics",
    "explicit, documented refusals are accepted outcomes: Expectation on density matrices (emu-sv asserts 'Only expectation values of StateVectors')",
]
CHUNK = 1
PATHS = ["sv", "sv_slm", "sv_lindblad", "sv_spam", "mps", "mps_slm", "dmrg", "mps_noisy", "mps_spam", "mps_leak_spam"]


def _specifiers():
    out = []
    for f in ["/repo/pyproject.toml"] + sorted(glob.glob("/repo/ci/*/pyproject.toml")):
        try:
            txt = open(f).read()
        except OSError:
            continue
        for m in re.finditer(r'"pulser-core(?:\[[^\]]*\])?\s*([^"]*)"', txt):
            out.append((f, m.group(1).strip()))
    return out


def _available_versions():
    vs = {importlib.metadata.version("pulser-core"): "installed in /venv"}
    for w in glob.glob("/opt/veriftools/wheels/pulser_core-*.whl") + glob.glob("/opt/veriftools/wheels/pulser-core-*"):
        v = re.search(r"pulser[_-]core-([0-9][^-]*)", w)
        if v:
            vs.setdefault(v.group(1), "wheel (not installed)")
    return vs


def _observable_classes(mod):
    from pulser.backend.observable import Observable

    out = []
    for name in mod.__all__:
        obj = getattr(mod, name, None)
        if isinstance(obj, type) and issubclass(obj, Observable):
            out.append(name)
    return sorted(out)


def bounds(tier, seed):
    import emu_mps
    import emu_sv

    return {
        "specifiers": _specifiers(),
        "versions_available_offline": _available_versions(),
        "paths": PATHS,
        "observables": {"emu_sv": _observable_classes(emu_sv), "emu_mps": _observable_classes(emu_mps)},
    }


def cases(tier, seed):
    import emu_mps
    import emu_sv
    from packaging.specifiers import SpecifierSet
    from packaging.version import Version

    for v, where in _available_versions().items():
        admitted = all(Version(v) in SpecifierSet(spec) for _, spec in _specifiers() if spec)
        if not admitted:
            continue
        for path in PATHS:
            mod = emu_sv if path.startswith("sv") else emu_mps
            for obs in _observable_classes(mod):
                yield {"version": v, "where": where, "path": path, "observable": obs}


def run_case(case):
    import pulser
    import emu_mps as m
    import emu_sv as sv
    import emu_mps.mps_backend_impl as impl_mod
    from mc import seams

    if case["where"] != "installed in /venv":
        return result(True, outcome="not-installed", nontrivial=False)
    if importlib.metadata.version("pulser-core") != case["version"]:
        return result(False, sig="harness|version-changed", msg="installed pulser-core changed during the run", outcome="ver")
    path, oname = case["path"], case["observable"]
    mod = sv if path.startswith("sv") else m
    label = f"pulser-core {case['version']} path={path} observable={oname}"
    n = 2
    spec = {"coords": kit.SHAPES["pair"], "device": "mock", "basis": "rydberg", "pulses": [{"amp": ["const", 40, 5.0], "det": ["const", 40, 1.0], "phase": 0.2}]}
    eig = ("r", "g")
    if path == "mps_leak_spam":
        # three-level atoms (leakage) together with a badly prepared atom: three atoms, the middle one dark in the first trajectory
        n = 3
        eig = ("r", "g", "x")
        spec["coords"] = kit.SHAPES["bent3"]
    if path.endswith("_slm"):
        spec["slm"] = [1]  # masked atom with index >= 1: the trajectory's stacked (k, N, N) interaction matrix gets its rows / columns zeroed
    seq = kit.build_sequence(spec)
    ev = [0.5, 1.0]
    noise = {"sv_lindblad": dict(relaxation_rate=0.5), "mps_noisy": dict(dephasing_rate=0.5), "sv_spam": dict(state_prep_error=0.3, p_false_pos=0.1, p_false_neg=0.1), "mps_spam": dict(state_prep_error=0.3, p_false_pos=0.1, p_false_neg=0.1),
             "mps_leak_spam": dict(state_prep_error=0.3, with_leakage=True, eff_noise_rates=(0.2,), eff_noise_opers=(np.array([[0, 0, 0], [0, 0, 0], [1.0, 0, 0]]),))}.get(path)
    dm = path == "sv_lindblad"
    try:
        cls = getattr(mod, oname)
        if oname == "Fidelity":
            scls = (sv.DensityMatrix if dm else sv.StateVector) if mod is sv else m.MPS
            ob = cls(state=scls.from_state_amplitudes(eigenstates=eig, amplitudes={"rgr"[:n]: 1.0}), evaluation_times=ev)
        elif oname == "Expectation":
            ocls = sv.DenseOperator if mod is sv else m.MPO
            ob = cls(ocls.from_operator_repr(eigenstates=eig, n_qudits=n, operations=[(1.0, [({"rr": 1.0}, {0})])]), evaluation_times=ev)
        elif oname == "EntanglementEntropy":
            ob = cls(mps_site=0, evaluation_times=ev)
        elif oname == "BitStrings":
            ob = cls(evaluation_times=ev, num_shots=5)
        else:
            ob = cls(evaluation_times=ev)
    except Exception as e:
        return result(False, sig=f"construct|{oname}|{type(e).__name__}", msg=f"{label}: constructing the observable raised {type(e).__name__}: {str(e)[:300]}", outcome="construct")
    kw = {}
    if noise:
        kw["noise_model"] = pulser.NoiseModel(**noise)
    if path.endswith("spam"):
        kw["n_trajectories"] = 2
    try:
        with contextlib.redirect_stdout(io.StringIO()):
            if mod is sv:
                cfg = sv.SVConfig(dt=10, observables=[ob], log_level=logging.CRITICAL, gpu=False, **kw)
                with seams.pulser_np_random(uniform=[[0.99, 0.99], [0.99, 0.0]]):
                    res = sv.SVBackend(seq, config=cfg).run()
            else:
                if path == "dmrg":
                    kw["solver"] = m.Solver.DMRG
                cfg = m.MPSConfig(dt=10, observables=[ob], log_level=logging.CRITICAL, num_gpus_to_use=0, **kw)
                masks = [[0.99, 0.0, 0.99], [0.99, 0.99, 0.99]] if path == "mps_leak_spam" else [[0.99, 0.99], [0.99, 0.99]]
                with seams.pulser_np_random(uniform=masks), seams.module_random(impl_mod, seams.ScriptedRandom(default_uniform=0.4, default_choice=0)):
                    res = m.MPSBackend(seq, config=cfg).run()
    except Exception as e:
        if oname == "Expectation" and dm and isinstance(e, AssertionError) and "StateVectors" in str(e):
            return result(True, outcome="documented-refusal", nontrivial=False)
        return result(False, sig=f"run|{path}|{oname}|{type(e).__name__}", msg=f"{label}: run raised {type(e).__name__}: {str(e)[:300]}", outcome="run")
    tag = ob.tag
    skipped_by_pulser = False
    if "n_trajectories" in kw:
        from pulser.backend.observable import AggregationMethod

        # only Pulser's own observable classes may declare themselves not aggregatable; an observable class defined by the emulators
        # (EntanglementEntropy: a real scalar per time) has to come out of a multi-trajectory run
        own = type(ob).__module__.startswith(("emu_mps", "emu_sv", "emu_base"))
        skipped_by_pulser = (not own) and getattr(ob, "default_aggregation_method", None) in (AggregationMethod.SKIP, AggregationMethod.SKIP_WARN)
    if skipped_by_pulser and tag not in res.get_result_tags():
        # Pulser's Results.aggregate drops observables whose declared aggregation method is SKIP / SKIP_WARN (e.g. variance, state)
        return result(True, outcome=["aggregate-skips", oname], nontrivial=False)
    if tag not in res.get_result_tags():
        return result(False, sig=f"missing|{path}|{oname}", msg=f"{label}: tag {tag} not in results {res.get_result_tags()}", outcome="missing")
    times = list(res.get_result_times(tag))
    if len(times) != 2 or any(abs(a - b) > 1e-9 for a, b in zip(times, ev)):
        return result(False, sig=f"times|{path}|{oname}", msg=f"{label}: stored at {times}, requested {ev}", outcome="times")
    for t in times:
        v = res.get_result(tag, t)
        if v is None:
            return result(False, sig=f"none|{path}|{oname}", msg=f"{label}: None stored at {t}", outcome="none")
    return result(True, outcome=["ok", path, oname], nontrivial=True)
