"""
C22 - per-step drive values are the interpolated Pulser samples.

E1: complete product waveform kind x channel kind x noise (scripted Gaussian alphabet / bad atoms) x
modulation x dt x evaluation-time set, each through the real PulserData(...).get_sequences().
Oracle: scipy PchipInterpolator over Pulser's own per-atom samples (pulser-core code) evaluated
at the midpoints of the solver's steps; amplitude clamped at 0; column k = k-th atom of the
register.  Every row, atom and quantity is compared.
"""
import itertools
import logging

import numpy as np
from scipy.interpolate import PchipInterpolator

from mc import pulser_kit as kit
from mc import seams
from mc.core import result, rnd

ID = "C22"
LEVEL = "model_checking"
ENGINE = "E1 small-scope product explorer over (waveform kind, channel kind, noise draw, modulation, dt, evaluation times)"
RULE = (
    "case = one (waveform, channel, noise answer, modulation) ; inside the case every dt x evaluation-time set of the "
    "alphabets is run through PulserData.get_sequences and all (row, atom, quantity) entries are compared with "
    "SciPy PCHIP of Pulser's samples; states = distinct (case, dt, times) inputs; non-trivial = amplitude not identically 0"
)
ASSUMPTIONS = [
    "Pulser's per-atom samples (SequenceSamples.to_nested_dict(all_local=True)) are the ground truth for the sampled drive",
    "the step grid itself is C21's subject: midpoints are taken from the SequenceData.target_times the adapter produced",
    "with fewer than 2 samples (1 ns sequence) the interpolant is the constant sample",
]
CHUNK = 1

T = 40


def waveforms():
    return {
        "const": (["const", T, 3.0], ["const", T, -1.5]),
        "rampdown": (["ramp", T, 4.0, 0.0], ["ramp", T, -5.0, 5.0]),
        "rampup": (["ramp", T, 0.0, 6.0], ["ramp", T, 2.0, -2.0]),
        "blackman": (["blackman", T, 1.2], ["const", T, 0.7]),
        "interp": (["interp", T, [0.0, 5.0, 1.0, 3.0]], ["interp", T, [-3.0, 4.0, -1.0]]),
        "composite": (["comp", ["const", 16, 2.0], ["ramp", 24, 2.0, 0.5]], ["comp", ["ramp", 16, 0.0, 3.0], ["const", 24, 3.0]]),
        "steep_end": (["ramp", T, 0.0, 12.0], ["const", T, 0.0]),
        # exactly two equal samples at an end, the third differs (flat first / last interval of the interpolant)
        "flat_end": (["comp", ["ramp", T - 2, 1.0, 5.0], ["const", 2, 5.0]], ["comp", ["ramp", T - 2, -3.0, 7.0], ["const", 2, 7.0]]),
        "flat_start": (["comp", ["const", 2, 4.0], ["ramp", T - 2, 3.0, 0.5]], ["comp", ["const", 2, -2.0], ["ramp", T - 2, -1.0, 6.0]]),
    }


CHANNELS = ["global", "local", "local_unordered", "dmm", "global+local", "xy"]
NOISES = [
    None,
    {"kind": "amplitude", "z": [-1.0]},
    {"kind": "amplitude", "z": [2.0]},
    {"kind": "amplitude", "z": [-30.0]},  # fluctuation clamps to 0 in Pulser
    {"kind": "detuning", "z": [1.5]},
    {"kind": "spam", "mask": [0, 1, 0]},
    {"kind": "spam", "mask": [1, 0, 1]},
    # position noise together with a finite laser waist: the damping of the amplitude follows the displaced atoms, so every trajectory has its own samples
    {"kind": "register_waist", "z": [[0.5], [-1.0], [2.0]], "n_trajectories": 2},
]
DTS = {"quick": [0.25, 0.5, 0.7, 1, 2.5, 10, T], "thorough": [0.1, 0.25, 0.3, 0.5, 0.7, 1, 2.5, 3, 7, 10, 16, T, 2 * T]}


def bounds(tier, seed):
    return {
        "waveforms": list(waveforms()),
        "channels": CHANNELS,
        "noise": NOISES,
        "n_trajectories": "1; 2 for position noise with a finite laser waist (each trajectory compared with its own Pulser samples)",
        "modulation": [False, True],
        "dt": DTS[tier],
        "eval_sets": "[1], [(T-0.5)/T, 1], [(T-0.25)/T], [0, 1/3, 1], [(T-1.5)/T, (T-0.3)/T]",
        "atoms": 3,
    }


def cases(tier, seed):
    for w, ch, nz, mod in itertools.product(waveforms(), CHANNELS, range(len(NOISES)), (False, True)):
        if ch == "xy" and NOISES[nz] is not None and NOISES[nz]["kind"] != "spam":
            continue  # Pulser does not define amplitude / detuning noise for the XY basis
        yield {"wf": w, "channel": ch, "noise": nz, "mod": mod, "tier": tier}


def _spec(case):
    amp, det = waveforms()[case["wf"]]
    spec = {"coords": kit.SHAPES["bent3"], "ids": ["c", "a", "b"], "device": "mod" if case["mod"] else "mock", "basis": "rydberg", "pulses": []}
    ch = case["channel"]
    if ch in ("global", "dmm", "global+local"):
        spec["pulses"].append({"amp": amp, "det": det, "phase": 0.4})
    if ch == "xy":
        spec["basis"] = "xy"
        spec["pulses"].append({"amp": amp, "det": det, "phase": 0.4})
    if ch == "local":
        spec["basis"] = "rydberg_local"
        spec["pulses"].append({"amp": amp, "det": det, "phase": 0.4, "targets": [1]})
    if ch == "local_unordered":
        # atoms are first addressed against the register order (b, then c) and atom a is never addressed
        spec["basis"] = "rydberg_local"
        spec["initial_target"] = 2
        spec["pulses"].append({"amp": amp, "det": det, "phase": 0.4})
        spec["pulses"].append({"amp": ["ramp", 24, 1.0, 3.0], "det": ["const", 24, 2.0], "phase": 1.1, "targets": [0]})
    if ch == "global+local":
        spec["local_channel"] = {"target": 2}
        spec["pulses"].append({"amp": ["ramp", 24, 1.0, 3.0], "det": ["const", 24, 2.0], "phase": 1.1, "ch": "loc"})
    if ch == "dmm":
        spec["dmm"] = {"weights": [1.0, 0.0, 0.4], "wfs": [["ramp", T, 0.0, -6.0]]}
    return spec


def _noise(nz):
    import pulser

    if nz is None:
        return None, {}
    if nz["kind"] == "amplitude":
        return pulser.NoiseModel(amp_sigma=0.1), {"normal": [nz["z"]] * 8}
    if nz["kind"] == "detuning":
        return pulser.NoiseModel(detuning_sigma=0.5), {"normal": [nz["z"]] * 8}
    if nz["kind"] == "spam":
        return pulser.NoiseModel(state_prep_error=0.3, p_false_pos=0.0, p_false_neg=0.0), {"uniform": [seams.bad_mask_uniform(nz["mask"])]}
    if nz["kind"] == "register_waist":
        nm = pulser.NoiseModel(laser_waist=20.0, temperature=50.0, trap_waist=1.0, trap_depth=150.0, disable_doppler=True)
        return nm, {"normal": [z * 9 for z in nz["z"]] * 4}
    raise ValueError(nz)


def _evalsets(Tdur):
    return [[1.0], [(Tdur - 0.5) / Tdur, 1.0], [(Tdur - 0.25) / Tdur], [0.0, 1 / 3, 1.0], [(Tdur - 1.5) / Tdur, (Tdur - 0.3) / Tdur]]


def run_case(case):
    import emu_sv as sv
    from emu_base import PulserData

    spec = _spec(case)
    seq = kit.build_sequence(spec)
    ids = list(seq.register.qubit_ids)
    nm, script = _noise(NOISES[case["noise"]])
    Tdur = seq.get_duration(include_fall_time=case["mod"])
    states = transitions = 0
    worst = 0.0
    any_amp = False
    chk = 0.0
    for dt, ev in itertools.product(DTS[case["tier"]], _evalsets(Tdur)):
        kw = {"noise_model": nm} if nm is not None else {}
        if NOISES[case["noise"]] and "n_trajectories" in NOISES[case["noise"]]:
            kw["n_trajectories"] = NOISES[case["noise"]]["n_trajectories"]
        cfg = sv.SVConfig(dt=dt, observables=[sv.Occupation(evaluation_times=ev)], with_modulation=case["mod"], log_level=logging.CRITICAL, gpu=False, **kw)
        label = f"wf={case['wf']} channel={case['channel']} noise={NOISES[case['noise']]} mod={case['mod']} dt={dt} eval={ev}"
        try:
            with seams.pulser_np_random(**script):
                pd = PulserData(sequence=seq, config=cfg, dt=dt)
            sds = list(pd.get_sequences())
            nss = list(pd.hamiltonian.noisy_samples)
        except Exception as e:
            return result(False, sig=f"raises|{type(e).__name__}", msg=f"{label}: {type(e).__name__}: {e}", outcome="raise")
        states += 1
        if len(sds) != len(nss) or len(sds) != kw.get("n_trajectories", 1):
            return result(False, sig="trajectory-count", msg=f"{label}: {len(sds)} SequenceData for {len(nss)} Pulser noisy samples", outcome="count")
        for sd, ns in zip(sds, nss):
            transitions += 1
            loc = ns.samples.to_nested_dict(all_local=True)["Local"]["XY" if case["channel"] == "xy" else "ground-rydberg"]
            tt = np.asarray(sd.target_times, dtype=float)
            mid = 0.5 * (tt[:-1] + tt[1:])
            nsamp = int(ns.samples.max_duration)
            tg = np.arange(nsamp, dtype=float)
            got = {"amp": sd.omega, "det": sd.delta, "phase": sd.phi}
            if tuple(sd.qubit_ids) != tuple(ids):
                return result(False, sig="qubit_ids", msg=f"{label}: SequenceData.qubit_ids {sd.qubit_ids} != register order {ids}", outcome="ids")
            for name in ("amp", "det", "phase"):
                g = got[name].detach().cpu().numpy()
                if g.shape != (len(mid), len(ids)):
                    return result(False, sig=f"shape|{name}", msg=f"{label}: {name} has shape {g.shape}, expected {(len(mid), len(ids))}", outcome="shape")
                if not np.abs(g.imag).max() <= 0:  # NaN fails
                    return result(False, sig=f"imag|{name}", msg=f"{label}: {name} has an imaginary part", outcome="imag")
                g = g.real
                chk += float(np.abs(g).sum())
                for k, q in enumerate(ids):
                    y = np.asarray(loc[q][name], dtype=float) if q in loc else np.zeros(nsamp)
                    exp = np.full(len(mid), y[0]) if nsamp == 1 else PchipInterpolator(tg, y, extrapolate=True)(mid)
                    if name == "amp":
                        neg = np.where(g[:, k] < 0)[0]
                        if len(neg):
                            r = int(neg[0])
                            return result(
                                False,
                                sig="negative-amplitude|" + ("last-row" if r == len(mid) - 1 else "earlier-row"),
                                msg=f"{label}: amplitude of atom {q} is {g[r, k]:.6g} < 0 in step {r} of {len(mid)} (midpoint {mid[r]:.4f} ns, last sample at {nsamp - 1} ns)",
                                outcome="neg",
                            )
                        exp = np.maximum(exp, 0.0)
                        any_amp = any_amp or bool(np.abs(y).max() > 0)
                    err = np.abs(g[:, k] - exp)
                    scale = max(1.0, float(np.abs(y).max()))
                    worst = max(worst, float(err.max() / scale))
                    if not err.max() <= 1e-9 * scale:  # NaN fails
                        r = int(err.argmax())
                        return result(
                            False,
                            sig=f"value|{name}",
                            msg=f"{label}: {name} of atom {q} (column {k}) in step {r} (midpoint {mid[r]:.4f} ns) is {g[r, k]:.9g}, PCHIP of Pulser's samples gives {exp[r]:.9g}",
                            outcome="value",
                        )
    return result(True, outcome=["ok", states, transitions, round(chk, 4)], states=states, transitions=transitions, nontrivial=any_amp)
