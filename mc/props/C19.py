"""
C19 - Brent root finding terminates inside the bracket at a sign change.

E3 environment-answer explorer.  The environment is the function being solved: at every query the
explorer answers with EVERY ordinate of a finite alphabet (adversarial, possibly discontinuous
functions), explicit-state search over the real BrentsRootFinder object (state = its attribute
tuple, de-duplicated), until convergence.  Invariants are evaluated on every transition.  A second
family drives named functions through both protocols (find_root_brents / one ordinate at a time).
"""
import copy
import itertools
import math

from mc.core import result

ID = "C19"
LEVEL = "model_checking"
ENGINE = "E3 explicit-state search over all ordinate-answer sequences on the real BrentsRootFinder"
RULE = (
    "case = (bracket, epsilon, tolerance, end ordinates, ordinate alphabet); inside a case every answer "
    "sequence is explored until is_converged (complete tree) or the stated depth cap; states = tree nodes "
    "(distinct finder states: the attribute tuple (a, b, fa, fb, c, d, fc, bisection) is hashed and a state is expanded once), transitions = get_next_abscissa+provide_ordinate pairs. "
    "Second family: named functions x strategies through both driving protocols."
)
ASSUMPTIONS = [
    "ordinates outside the alphabet are not covered; trees that hit the depth cap are reported as capped, not as passes of termination",
]
CHUNK = 1

ALPH4 = [1.0, -1.0, 0.3, -0.3]
ALPH6 = ALPH4 + [1e-3, -1e-3]
ALPH9 = ALPH6 + [0.0, 1e-9, -1e-9]
ALPH7 = ALPH6 + [0.0]
ALPHU = [1.0, -1.0, 1e-170, -1e-170, 1e-3, -1e-3]  # products of two ordinates underflow, interpolation ratios overflow
ALPHT = [1.0, -1.0, 1e-20, -1e-20, 1e-3, -1e-3]  # ordinates more than 16 orders of magnitude apart: interpolation steps vanish in floating point
ALPH5 = ALPH4 + [0.0]


def _tree_cases(tier):
    ends = [(1.0, -1.0), (-1.0, 0.3), (1e-3, -1.0), (-0.3, 1e-3)]
    if tier == "quick":
        plan = [
            # (bracket, tol, alphabet, depth cap)
            ((0.0, 1.0), 1.0 / 16, ALPH6, 40),
            ((0.0, 16.0), 1.0, ALPH6, 40),
            ((5.0, 25.0), 1.0, ALPH6, 40),
            ((-3.0, 4.0), 1.0, ALPH6, 40),
            ((100.0, 116.0), 1.0, ALPH6, 40),
            ((0.0, 1e-3), 1e-3 / 8, ALPH4, 40),
            ((0.0, 1.0), 1e-3, ALPH4, 7),
        ]
        for br in ((5.0, 25.0), (-3.0, 4.0)):
            for eps in (1.0, 1e-6):
                for fs, fe in ((1.0, -1.0), (1e-20, -1.0), (-1.0, 1e-20), (-1e-20, 1e-3)):
                    yield {"family": "tree", "bracket": list(br), "tol": 1.0, "eps": eps, "f_start": fs, "f_end": fe, "alphabet": ALPHT, "depth_cap": 60}
                for fs, fe in ((1.0, -1.0), (1e-170, -1.0), (-1.0, 1e-170), (-1e-170, 1e-3)):
                    yield {"family": "tree", "bracket": list(br), "tol": 1.0, "eps": eps, "f_start": fs, "f_end": fe, "alphabet": ALPHU, "depth_cap": 60}
        epss = [1.0, 1e-6]
    else:
        # sized from measured tree sizes: with a small epsilon interpolation steps are accepted more often and the trees get deep
        # (a 9-letter alphabet then exceeds 10^8 states), so those rows use the 7- or 5-letter alphabet that still contains the exact zero
        E1, ES, EA = [1.0], [1e-6, 1e-3], [1.0, 1e-6, 1e-3]
        plan = [
            ((0.0, 1.0), 1.0 / 64, ALPH6, 60, E1),
            ((0.0, 1.0), 1.0 / 64, ALPH5, 60, ES),
            ((0.0, 16.0), 1.0, ALPH9, 60, E1),
            ((0.0, 16.0), 1.0, ALPH7, 60, ES),
            ((5.0, 25.0), 1.0, ALPH9, 60, E1),
            ((5.0, 25.0), 1.0, ALPH7, 60, ES),
            ((-3.0, 4.0), 1.0, ALPH9, 60, EA),
            ((100.0, 116.0), 1.0, ALPH9, 60, E1),
            ((100.0, 116.0), 1.0, ALPH7, 60, ES),
            ((0.0, 2.0), 1.0, ALPH9, 60, EA),
            ((0.0, 20.0), 1.0, ALPH6, 60, EA),
            ((0.0, 1e-3), 1e-3 / 16, ALPH6, 60, EA),
            ((0.0, 1.0), 1e-3, ALPH4, 10, EA),
            ((0.0, 16.0), 1e-3, ALPH4, 10, EA),
        ]
        ends = ends + [(1e-9, -1.0), (-1.0, 1e-9)]
        for br in ((5.0, 25.0), (-3.0, 4.0), (0.0, 16.0), (100.0, 116.0)):
            for eps in EA:
                for fs, fe in ((1.0, -1.0), (1e-20, -1.0), (-1.0, 1e-20), (-1e-20, 1e-3), (1e-3, -1e-20)):
                    yield {"family": "tree", "bracket": list(br), "tol": 1.0, "eps": eps, "f_start": fs, "f_end": fe, "alphabet": ALPHT, "depth_cap": 60}
                for fs, fe in ((1.0, -1.0), (1e-170, -1.0), (-1.0, 1e-170), (-1e-170, 1e-3), (1e-3, -1e-170)):
                    yield {"family": "tree", "bracket": list(br), "tol": 1.0, "eps": eps, "f_start": fs, "f_end": fe, "alphabet": ALPHU, "depth_cap": 60}
        for (br, tol, alph, cap, epss), (fs, fe) in itertools.product(plan, ends):
            for eps in epss:
                yield {"family": "tree", "bracket": list(br), "tol": tol, "eps": eps, "f_start": fs, "f_end": fe, "alphabet": alph, "depth_cap": cap}
        return
    for (br, tol, alph, cap), eps, (fs, fe) in itertools.product(plan, epss, ends):
        yield {"family": "tree", "bracket": list(br), "tol": tol, "eps": eps, "f_start": fs, "f_end": fe, "alphabet": alph, "depth_cap": cap}


FUNCS = {
    "linear": lambda x, a, b: x - (a + 0.37 * (b - a)),
    # ordinates spanning more than 16 orders of magnitude across the bracket: interpolation steps from b vanish in floating point
    "x21": lambda x, a, b: (((x - a) / (b - a) - 0.001) * 10) ** 21,
    "exp40": lambda x, a, b: math.exp(40 * ((x - a) / (b - a) * 2.5 - 1)) - 1.0000001,
    "tinyplateau": lambda x, a, b: -1e-20 if x < a + 0.6 * (b - a) else 1.0,
    "cubic": lambda x, a, b: (x - (a + 0.61 * (b - a))) ** 3,
    "x9": lambda x, a, b: ((x - (a + 0.5 * (b - a))) / (b - a)) ** 9 - 1e-12,
    "exp": lambda x, a, b: math.exp(-(x - a) / (b - a) * 3) - 0.4,
    "flipdisc": lambda x, a, b: (1.0 if x < a + 0.7 * (b - a) else -0.2) * (1 + 0.5 * math.sin(40 * x)),
    "plateau": lambda x, a, b: 0.0 if a + 0.4 * (b - a) <= x <= a + 0.6 * (b - a) else (1.0 if x < a + 0.5 * (b - a) else -1.0),
}


SCALE = [1.0, 0.6, 0.36, 0.22, 0.13, 0.078, 0.047, 0.01]  # graded magnitudes (ratio 0.6, plus a small one): ratios between ordinates decide the interpolation
DENSE = [s * m for m in SCALE for s in (1.0, -1.0)]


def _prefix_cases(tier):
    """Deviation-bounded: the first K answers range over the dense alphabet, afterwards the environment is a fixed step function."""
    brackets = [(-1.0, 2.0), (0.0, 10.0), (5.0, 25.0)]
    for br in brackets:
        for eps in (1e-6,) if tier == "quick" else (1e-6, 1e-3, 1.0):
            for ms in SCALE[:6]:
                for me in SCALE[:6]:
                    for sgn in (1.0, -1.0):
                        yield {"family": "prefix", "bracket": list(br), "tol": 1e-3, "eps": eps, "f_start": sgn * ms, "f_end": -sgn * me, "K": 2 if tier == "quick" else 3}


def _run_prefix(case):
    from emu_base.math.brents_root_finding import BrentsRootFinder

    lo, hi = case["bracket"]
    tol, eps, K = case["tol"], case["eps"], case["K"]
    runs = steps = 0
    horizon = 4 * (math.ceil(math.log2((hi - lo) / tol)) + 2) + 10 + K
    for pre in itertools.product(DENSE, repeat=K):
        for frac in (0.1, 0.5, 0.9):
            rf = BrentsRootFinder(start=lo, end=hi, f_start=case["f_start"], f_end=case["f_end"], epsilon=eps)
            k = 0
            step_fn = None
            n = 0
            while not rf.is_converged(tol):
                prev = (rf.a, rf.fa, rf.b, rf.fb)
                x = rf.get_next_abscissa()
                if x == prev[0]:
                    y = prev[1]
                elif x == prev[2]:
                    y = prev[3]
                elif k < K:
                    y = pre[k]
                else:
                    if step_fn is None:
                        # a step function on the bracket as it is when the free answers end: sign of f(a) up to a point inside, sign of f(b) beyond
                        r0 = prev[0] + frac * (prev[2] - prev[0])
                        sa, sb = math.copysign(0.2, prev[1]), math.copysign(0.15, prev[3])
                        step_fn = lambda t, r0=r0, a0=prev[0], sa=sa, sb=sb: sa if (t - r0) * (a0 - r0) > 0 else sb  # noqa: E731
                    y = step_fn(x)
                k += 1
                rf.provide_ordinate(x, y)
                n += 1
                err = _check_step(rf, lo, hi, x, y, prev)
                if err:
                    return None, f"{err}; free answers {list(pre[:k])}, then a step function at fraction {frac} of the bracket"
                if n > horizon:
                    return None, f"no convergence within {horizon} evaluations (ranking bound); free answers {list(pre)}, step function at fraction {frac}"
            if not (rf.fa * rf.fb <= 0 and lo <= rf.current_guess <= hi and rf.current_guess == rf.b):
                return None, f"converged without a bracketed sign change: a={rf.a} b={rf.b}; free answers {list(pre)}"
            runs += 1
            steps += n
    return (runs, steps), None


def _func_cases(tier):
    brackets = [(0.0, 1.0), (0.0, 16.0), (5.0, 25.0), (-3.0, 4.0), (100.0, 116.0), (0.0, 1e-3)]
    tols = [1.0, 1e-3, 1e-6] if tier == "quick" else [1.0, 1e-2, 1e-3, 1e-6, 1e-9]
    for br, tol, eps, fn in itertools.product(brackets, tols, [1.0, 1e-6], list(FUNCS) + ["steps"]):
        if tol >= br[1] - br[0]:
            continue
        yield {"family": "func", "bracket": list(br), "tol": tol, "eps": eps, "func": fn, "tier": tier}
    strategies = ["same_as_a", "alternate", "keep_large", "creep_tiny", "creep_to_a"]
    for br, tol, eps, st in itertools.product(brackets, [1.0, 1e-3], [1.0, 1e-6], strategies):
        if tol >= br[1] - br[0]:
            continue
        yield {"family": "strategy", "bracket": list(br), "tol": tol, "eps": eps, "strategy": st}


def bounds(tier, seed):
    return {
        "tree_cases": len(list(_tree_cases(tier))),
        "dense_prefix": {"free_answers": "2 (quick) / 3 (thorough) over " + str(len(DENSE)) + " graded ordinates, then a step function at 3 positions", "end_ordinates": "6 x 6 magnitudes x 2 signs", "brackets": [[-1, 2], [0, 10], [5, 25]]},
        "ordinate_alphabets": {"ALPHT": ALPHT, "ALPHU": ALPHU, "ALPH4": ALPH4, "ALPH6": ALPH6, "ALPH9": ALPH9, "ALPH7": ALPH7, "ALPH5": ALPH5},
        "functions": list(FUNCS) + ["step at every 1/8 grid point (both directions)"],
        "strategies": ["same_as_a", "alternate", "keep_large", "creep_tiny", "creep_to_a"],
        "strategy_horizon": 5000,
    }


def cases(tier, seed):
    yield from _tree_cases(tier)
    yield from _prefix_cases(tier)
    yield from _func_cases(tier)


def _state(rf):
    return (rf.a, rf.b, rf.fa, rf.fb, rf.c, rf.d, rf.fc, rf.bisection)


def _check_step(rf, lo, hi, x, y, prev):
    """invariants after one get_next_abscissa/provide_ordinate pair; prev = (a, fa, b, fb) before it."""
    pa, pfa, pb, pfb = prev
    if not (lo <= x <= hi):
        return f"queried abscissa {x!r} outside bracket [{lo}, {hi}]"
    if not (min(pa, pb) <= x <= max(pa, pb)):
        return f"queried abscissa {x!r} outside the current bracket [{min(pa, pb)}, {max(pa, pb)}]"
    if not (min(rf.a, rf.b) >= lo and max(rf.a, rf.b) <= hi):
        return f"bracket end left the interval: a={rf.a} b={rf.b}"
    if rf.fa * rf.fb > 0:
        return f"bracket lost the sign change: f({rf.a})={rf.fa}, f({rf.b})={rf.fb}"
    w = abs(rf.b - rf.a)
    if w > abs(pb - pa) * (1 + 1e-15):
        return f"bracket grew from {abs(pb - pa)} to {w}"
    # the bracket ends must be recorded evaluations: the old ends or the new point
    known = ((pa, pfa), (pb, pfb), (x, y))
    if (rf.a, rf.fa) not in known or (rf.b, rf.fb) not in known:
        return f"bracket ordinates are not recorded evaluations: a={rf.a},{rf.fa} b={rf.b},{rf.fb}"
    return None


def _path(node):
    out = []
    while node is not None:
        node, y = node
        out.append(y)
    return out[::-1]


def _run_tree(case):
    from emu_base.math.brents_root_finding import BrentsRootFinder

    lo, hi = case["bracket"]
    tol, eps, alph, cap = case["tol"], case["eps"], case["alphabet"], case["depth_cap"]
    root = BrentsRootFinder(start=lo, end=hi, f_start=case["f_start"], f_end=case["f_end"], epsilon=eps)
    stack = [(root, 0, None)]
    nodes = transitions = leaves = capped = merged = 0
    maxdepth = 0
    # explicit-state: the finder's future depends only on its attribute tuple (tolerance and alphabet are fixed per case), so a state
    # reached again at the same or a larger depth is not expanded a second time (its subtree was checked, or is being checked, already)
    seen = {}
    while stack:
        rf, depth, path = stack.pop()
        key = _state(rf)
        if seen.get(key, 1 << 30) <= depth:
            merged += 1
            continue
        seen[key] = depth
        nodes += 1
        maxdepth = max(maxdepth, depth)
        if rf.is_converged(tol):
            leaves += 1
            g = rf.current_guess
            if not (lo <= g <= hi):
                return None, f"returned guess {g} outside [{lo},{hi}] after answers {_path(path)}"
            # within tolerance of a sign change: the other bracket end has the opposite sign (or a zero)
            if not (rf.fa * rf.fb <= 0 and abs(rf.a - rf.b) < tol and g == rf.b):
                return None, f"converged without a bracketed sign change within tolerance: a={rf.a} b={rf.b} path={_path(path)}"
            continue
        if depth >= cap:
            capped += 1
            continue
        prev = (rf.a, rf.fa, rf.b, rf.fb)
        x = rf.get_next_abscissa()  # rf is not used again: it becomes the probe
        # the environment is a FUNCTION: at an abscissa it already answered (a vanishing step re-queries b) only the recorded ordinate is legal
        forced = prev[1] if x == prev[0] else (prev[3] if x == prev[2] else None)
        for y in alph if forced is None else [forced]:
            child = copy.copy(rf)
            child.provide_ordinate(x, y)
            transitions += 1
            err = _check_step(child, lo, hi, x, y, prev)
            if err:
                return None, f"{err}; answers so far {_path((path, y))}"
            stack.append((child, depth + 1, (path, y)))
    return (nodes, transitions, leaves, capped, maxdepth, merged), None


def _drive(case, f, horizon=100000):
    """Both protocols; returns (queries_manual, queries_public, root_manual, root_public, error)."""
    from emu_base.math.brents_root_finding import BrentsRootFinder, find_root_brents

    lo, hi = case["bracket"]
    tol, eps = case["tol"], case["eps"]
    q1 = []

    def f1(x):
        q1.append(x)
        return f(x)

    fs, fe = f(lo), f(hi)
    rf = BrentsRootFinder(start=lo, end=hi, f_start=fs, f_end=fe, epsilon=eps)
    steps = 0
    while not rf.is_converged(tol):
        prev = (rf.a, rf.fa, rf.b, rf.fb)
        x = rf.get_next_abscissa()
        y = f1(x)
        rf.provide_ordinate(x, y)
        steps += 1
        err = _check_step(rf, lo, hi, x, y, prev)
        if err:
            return None, err
        if steps > horizon:
            return None, f"no convergence after {horizon} evaluations"
    q2 = []

    def f2(x):
        q2.append(x)
        if len(q2) > horizon:
            raise RuntimeError("horizon")
        return f(x)

    try:
        r2 = find_root_brents(f2, start=lo, end=hi, f_start=fs, f_end=fe, tolerance=tol, epsilon=eps)
    except RuntimeError:
        return None, f"find_root_brents: no convergence after {horizon} evaluations"
    if q1 != q2 or r2 != rf.current_guess:
        return None, f"the two driving protocols diverge: {q1[:6]} vs {q2[:6]}"
    return (rf, steps), None


def run_case(case):
    try:
        return _run_case(case)
    except (ArithmeticError, AssertionError, ValueError) as e:
        import traceback

        tb = traceback.extract_tb(e.__traceback__)[-1]
        if "brents_root_finding" not in tb.filename:
            raise
        return result(
            False,
            sig=f"raises|{type(e).__name__}|{case['family']}|{case.get('func', case.get('strategy', 'tree'))}",
            msg=f"root finder raised {type(e).__name__}: {e} at {tb.name}:{tb.lineno} for {case}",
            outcome="raise",
        )


def _run_case(case):
    fam = case["family"]
    lo, hi = case["bracket"]
    if fam == "tree":
        stats, err = _run_tree(case)
        if err:
            return result(False, sig=f"tree|eps{case['eps']}", msg=f"{err} (bracket {case['bracket']}, tol {case['tol']}, ends {case['f_start']},{case['f_end']})", outcome="viol")
        states, transitions, leaves, capped, maxdepth, merged = stats
        return result(True, outcome=[states, leaves, capped, maxdepth], states=states, transitions=transitions, extra={"capped_paths": capped, "merged": merged})
    if fam == "prefix":
        stats, err = _run_prefix(case)
        if err:
            return result(False, sig=f"prefix|eps{case['eps']}", msg=f"{err} (bracket {case['bracket']}, tol {case['tol']}, ends {case['f_start']},{case['f_end']})", outcome="viol")
        return result(True, outcome=["prefix", stats[0], stats[1]], states=stats[0], transitions=stats[1])
    if fam == "func":
        name = case["func"]
        if name == "steps":
            total = 0
            for k in range(1, 8):
                for sgn in (1.0, -1.0):
                    loc = lo + k * (hi - lo) / 8
                    f = lambda x, loc=loc, sgn=sgn: sgn * (0.7 if x < loc else -0.45)  # noqa: E731
                    out, err = _drive(case, f)
                    if err:
                        return result(False, sig="func|steps", msg=f"step at {loc} sign {sgn}: {err} ({case})", outcome="viol")
                    rf, steps = out
                    total += steps
                    if not abs(rf.current_guess - loc) <= case["tol"]:  # NaN fails
                        return result(False, sig="func|steps|accuracy", msg=f"returned {rf.current_guess}, sign change at {loc}, tol {case['tol']} ({case})", outcome="viol")
            return result(True, outcome=["steps", total], transitions=total, states=14)
        f = lambda x: FUNCS[name](x, lo, hi)  # noqa: E731
        out, err = _drive(case, f)
        if err:
            return result(False, sig=f"func|{name}", msg=f"{err} ({case})", outcome="viol")
        rf, steps = out
        g = rf.current_guess
        # a sign change (or zero) of f within tol of the returned point, located by dense scan
        ok = False
        m = 2000
        for i in range(m + 1):
            x0 = max(lo, g - case["tol"]) + (min(hi, g + case["tol"]) - max(lo, g - case["tol"])) * i / m
            if i == 0:
                prev = f(x0)
                if prev == 0:
                    ok = True
                continue
            cur = f(x0)
            if cur == 0 or (prev < 0) != (cur < 0):  # compare signs, not the product (which underflows for x**21 near its root)
                ok = True
                break
            prev = cur
        if not ok and f(g) != 0:
            return result(False, sig=f"func|{name}|accuracy", msg=f"no sign change of {name} within {case['tol']} of returned {g} ({case})", outcome="viol")
        return result(True, outcome=[name, steps], transitions=steps)
    # strategies: adversaries that answer from the finder's own state, played to a horizon
    from emu_base.math.brents_root_finding import BrentsRootFinder

    st = case["strategy"]
    fs, fe = 1.0, -1.0
    rf = BrentsRootFinder(start=lo, end=hi, f_start=fs, f_end=fe, epsilon=case["eps"])
    steps = 0
    # bound from the ranking argument: every second step at worst is a bisection => 2*log2 + slack
    bound = 4 * (math.ceil(math.log2((hi - lo) / case["tol"])) + 2) + 10
    while not rf.is_converged(case["tol"]):
        prev = (rf.a, rf.fa, rf.b, rf.fb)
        x = rf.get_next_abscissa()
        if st == "same_as_a":
            y = math.copysign(abs(rf.fa), rf.fa)
        elif st == "alternate":
            y = 1.0 if steps % 2 else -1.0
        elif st == "keep_large":
            # answer so that the larger part of the bracket survives
            keep_a = abs(x - rf.a) > abs(x - rf.b)
            y = math.copysign(0.5, rf.fb if keep_a else rf.fa)
        elif st == "creep_tiny":
            y = math.copysign(1e-9 * (1 + steps % 3), rf.fa)
        else:
            y = math.copysign(abs(rf.fa) * 0.999, rf.fa)
        rf.provide_ordinate(x, y)
        steps += 1
        err = _check_step(rf, lo, hi, x, y, prev)
        if err:
            return result(False, sig=f"strategy|{st}", msg=f"{err} ({case})", outcome="viol")
        if steps > 5000:
            return result(False, sig=f"strategy|{st}|livelock", msg=f"strategy {st} not converged after 5000 steps ({case})", outcome="viol")
    return result(True, outcome=[st, steps, steps <= bound], transitions=steps, extra={"steps": steps, "rank_bound": bound})
