"""
C18 - quantum-jump stepping completes every time step once, in order, and terminates.

E3 on the real NoisyMPSBackendImpl: the time evolution is replaced by a stub (the state is left unchanged) and, right before every real
sweep_complete(), the explorer sets the state's squared norm to its answer.  Everything else is the real code: sweep_complete, the Brent
jump-time search, do_random_quantum_jump, timestep_complete, fill_results and the Results object.
Environment answers per progress() call: squared norm minus the current threshold in {+0.3, +0.01, -0.01, -0.3} (thorough: also exactly 0).
Exploration: deviation-bounded depth-first search (deviation = an answer below the threshold while no jump search is running, i.e. a new
crossing); inside a jump search EVERY answer sequence is explored until the search converges.  Every path is replayed on a fresh impl.
Oracle on the observed trace: time steps complete 0,1,2,... exactly once and at their end time; observables are stored once per due time; every
evolution target lies inside the current step; every jump happens inside the step, within 1 ns of a recorded sign change of (norm^2 - threshold);
jump times do not decrease; the run finishes within the call budget implied by the number of crossings.
"""
import contextlib
import io
import itertools
import logging

import numpy as np

from mc import explore, seams
from mc.core import result, rnd

ID = "C18"
LEVEL = "model_checking"
ENGINE = "E3 deviation-bounded DFS over the norm values returned by the (stubbed) evolution, on the real NoisyMPSBackendImpl"
RULE = (
    "case = (atoms, step length dt, number of steps, threshold, crossing bound); inside: every answer path within the bound; states = distinct paths "
    "(complete executions), transitions = progress() calls; non-trivial = the path contains at least one quantum jump"
)
ASSUMPTIONS = [
    "the evolution stub leaves the state unchanged; the explorer owns state.norm()**2 at every sweep_complete (harness-level wrappers, no source hooks)",
    "jump operator sqrt(0.5) sigma_z: jump weights never vanish, the jump leaves |g..g> invariant up to a sign",
    "inside a jump search the answer alphabet is {+0.3, -0.01, -0.3} (first search of a path: all four values)",
    "call budget: steps*sweep_calls + crossings*40*sweep_calls",
]
CHUNK = 1
OUT = [0.3, 0.01, -0.01, -0.3]
OUT_COST = [0, 0, 1, 1]


# (atoms, dt, steps) -> crossing bound [, alphabet of later searches]; sized so that a case stays below ~15 000 paths (quick) / ~300 000 (thorough)
QUICK = [
    (2, 1, 1, 3), (2, 1, 2, 3), (2, 2, 1, 3), (2, 2, 2, 2), (2, 8, 1, 2, [0.3, -0.3]), (2, 8, 2, 1), (2, 20, 1, 1), (2, 20, 2, 1, None, [0.3, -0.01, -0.3]),
    (3, 1, 2, 2), (3, 2, 2, 2), (3, 8, 1, 1), (3, 20, 1, 1, None, [0.3, -0.01, -0.3]),
]
# extra rows: (row, options) - a last step shorter than dt; ordinates of tiny magnitude (below the MPS precision) inside a search
EXTRA = [
    ((2, 8, 2, 1), {"short_last": True}),
    ((2, 20, 2, 1, None, [0.3, -0.01, -0.3]), {"short_last": True}),
    ((3, 8, 2, 1, None, [0.3, -0.01, -0.3]), {"short_last": True}),
    ((2, 8, 1, 1), {"offgrid": True}),
    ((2, 20, 1, 1, None, [0.3, -0.01, -0.3]), {"offgrid": True}),
    ((3, 8, 1, 1, None, [0.3, -0.01, -0.3]), {"offgrid": True}),
    ((2, 8, 1, 1, None, [0.3, 1e-7, -1e-7, -0.3]), {}),
    ((2, 20, 1, 1, None, [0.3, -1e-7, -0.3]), {}),
    # a crossing that is shallower than the MPS precision at the end of a step (gap -1e-6 with precision 1e-5): it is a crossing all the same
    ((2, 2, 2, 2), {"out": [0.3, -1e-6, 1e-6, -0.3], "out_cost": [0, 1, 0, 1]}),
    ((2, 8, 2, 1), {"out": [0.3, -1e-6, -0.3], "out_cost": [0, 1, 1]}),
    ((3, 2, 2, 1), {"out": [0.3, -1e-6, -0.3], "out_cost": [0, 1, 1]}),
]
THOROUGH = QUICK + [
    (2, 1, 3, 3), (2, 2, 3, 3), (2, 2, 2, 3), (2, 8, 1, 3, [0.3, -0.3]), (2, 8, 2, 2, [0.3, -0.3]), (2, 8, 3, 1), (2, 20, 1, 2, [0.3, -0.3]), (2, 0.5, 2, 3),
    (3, 2, 3, 2), (3, 8, 2, 1), (3, 8, 1, 2, [0.3, -0.3]),
]


def bounds(tier, seed):
    return {
        "table (atoms, dt, steps, crossing bound[, later-search alphabet, first-search alphabet])": QUICK if tier == "quick" else THOROUGH,
        "threshold": [0.5] + ([1e-9, 1 - 1e-9] if tier == "thorough" else []),
        "answers_outside_a_search": OUT,
        "answers_inside_the_first_search": [0.3, 0.01, -0.01, -0.3],
        "exact_zero_answer": "thorough, 2 atoms, dt <= 2, bound 1",
        "extra_rows": "last step half as long as dt (3 rows); first step cut at 0.45 dt by an off-grid evaluation time (3 rows); ordinates of magnitude 1e-7 inside a search (2 rows); step-end gaps of +-1e-6, below the MPS precision (3 rows)",
    }


def cases(tier, seed):
    for row in QUICK if tier == "quick" else THOROUGH:
        n, dt, steps, bound = row[:4]
        c = {"n": n, "dt": dt, "steps": steps, "u": 0.5, "bound": bound, "zero": False}
        if len(row) > 4 and row[4]:
            c["inner2"] = row[4]
        if len(row) > 5 and row[5]:
            c["inner1"] = row[5]
        yield c
    for row, opts in EXTRA:
        n, dt, steps, bound = row[:4]
        c = {"n": n, "dt": dt, "steps": steps, "u": 0.5, "bound": bound, "zero": False}
        if len(row) > 4 and row[4]:
            c["inner2"] = row[4]
        if len(row) > 5 and row[5]:
            c["inner1"] = row[5]
        c.update(opts)
        yield c
    if tier == "thorough":
        for u in (1e-9, 1 - 1e-9):
            for n, dt, steps, bound in ((2, 2, 2, 2), (2, 8, 1, 1), (3, 2, 1, 2)):
                yield {"n": n, "dt": dt, "steps": steps, "u": u, "bound": bound, "zero": False}
        for dt, steps in ((1, 2), (2, 1), (2, 2)):
            yield {"n": 2, "dt": dt, "steps": steps, "u": 0.5, "bound": 1, "zero": True}


def _make_impl(case):
    import torch
    import pulser
    import emu_mps as m
    import emu_mps.mps_backend_impl as impl_mod
    from emu_base import HamiltonianType, SequenceData

    n, dt, steps = case["n"], case["dt"], case["steps"]
    tt = [dt * k for k in range(steps + 1)]
    if case.get("short_last"):
        tt[-1] = tt[-2] + 0.5 * dt  # the last step is shorter than config.dt (duration not a multiple of dt)
    if case.get("offgrid"):
        tt = tt[:1] + [0.45 * dt] + tt[1:]  # an evaluation time off the dt grid cuts the first step in two
        steps = len(tt) - 1
    ev = [t / tt[-1] for t in tt]
    z = torch.zeros(len(tt) - 1, n, dtype=torch.complex128)
    L = torch.tensor([[1.0, 0.0], [0.0, -1.0]], dtype=torch.complex128) * np.sqrt(0.5)
    U = torch.zeros(n, n, dtype=torch.float64)
    sd = SequenceData(
        omega=z, delta=z.clone(), phi=z.clone(), interaction_matrix=lambda t: U, qubit_ids=tuple(f"q{i}" for i in range(n)),
        bad_atoms=tuple(False for _ in range(n)), lindblad_ops=[L], state_prep_error=0.0, target_times=tt, eigenstates=["r", "g"],
        hamiltonian_type=HamiltonianType.Rydberg,
    )
    cfg = m.MPSConfig(dt=dt, observables=[m.Occupation(evaluation_times=ev)], noise_model=pulser.NoiseModel(dephasing_rate=1.0), optimize_qubit_ordering=False, log_level=logging.CRITICAL, num_gpus_to_use=0)
    impl = impl_mod.NoisyMPSBackendImpl(cfg, sd)
    return impl, tt, ev


def _path(case, chooser):
    """one complete execution; returns (error string | None, trace summary)"""
    import torch
    import emu_mps.mps_backend_impl as impl_mod

    n, steps, u = case["n"], case["steps"], case["u"]
    trace = {"complete": [], "fill": [], "jumps": [], "targets": [], "gaps": [], "calls": 0}

    def ev_pair(*, state_factors, orth_center_right, **kw):
        a, b = state_factors
        s = a.norm() * b.norm()
        a, b = a / a.norm(), b / b.norm()
        return [a, b * s] if orth_center_right else [a * s, b]

    def ev_single(*, state_factor, **kw):
        return state_factor

    rng = seams.ScriptedRandom(default_uniform=u, default_choice=0)
    old_pair, old_single = impl_mod.evolve_pair, impl_mod.evolve_single
    impl_mod.evolve_pair, impl_mod.evolve_single = ev_pair, ev_single
    try:
        with seams.module_random(impl_mod, rng), contextlib.redirect_stdout(io.StringIO()):
            impl, tt, ev = _make_impl(case)
            orig = {k: getattr(impl, k) for k in ("sweep_complete", "timestep_complete", "fill_results", "do_random_quantum_jump")}
            searches = [0]

            def sweep_complete():
                in_search = impl.root_finder is not None
                step = impl._timestep_index
                trace["targets"].append((step, impl.current_time, impl.target_time))
                if in_search:
                    alph = case.get("inner2", [0.3, -0.01, -0.3]) if searches[0] > 1 else case.get("inner1", [0.3, 0.01, -0.01, -0.3])
                    if case.get("zero"):
                        alph = alph + [0.0]
                    k = chooser.choose(len(alph), [0] * len(alph))
                    gap = alph[k]
                else:
                    alph = list(case.get("out") or OUT) + ([0.0] if case.get("zero") else [])
                    k = chooser.choose(len(alph), list(case.get("out_cost") or OUT_COST) + ([0] if case.get("zero") else []))
                    gap = alph[k]
                    if gap < 0:
                        searches[0] += 1
                thr = impl.jump_threshold
                target = max(thr + gap * min(thr, 1 - thr) / 0.5, 1e-12) if gap != 0.0 else thr
                c = impl.state.orthogonality_center
                f = impl.state.factors[c]
                impl.state.factors[c] = f * (np.sqrt(target) / float(impl.state.norm()))
                trace["gaps"].append((impl.target_time, float(impl.state.norm()) ** 2 - thr, step))
                return orig["sweep_complete"]()

            def timestep_complete():
                trace["complete"].append((impl._timestep_index, impl.current_time))
                return orig["timestep_complete"]()

            def fill_results():
                trace["fill"].append(impl.current_time)
                return orig["fill_results"]()

            def jump():
                trace["jumps"].append((impl._timestep_index, impl.current_time, len(trace["gaps"])))
                return orig["do_random_quantum_jump"]()

            impl.sweep_complete, impl.timestep_complete, impl.fill_results, impl.do_random_quantum_jump = sweep_complete, timestep_complete, fill_results, jump
            impl.init()
            sweep_calls = 1 if n <= 2 else 2 * (n - 1) - 1
            budget = (steps + 1) * sweep_calls + (case["bound"] + 1) * 40 * sweep_calls + 5
            while not impl.is_finished():
                impl.progress()
                trace["calls"] += 1
                if trace["calls"] > budget:
                    return f"still running after {trace['calls']} progress() calls (budget {budget}): livelock", trace
            res = impl.results
    except AssertionError as e:
        return f"AssertionError inside the stepping code: {str(e)[:200]}", trace
    except seams.NeedMore as e:
        return f"harness: unexpected random draw {e}", trace
    except Exception as e:  # anything the stepping code raises is an outcome (e.g. Pulser refusing a second value for the same time)
        return f"raised {type(e).__name__} inside the stepping code: {str(e)[:200]}", trace
    finally:
        impl_mod.evolve_pair, impl_mod.evolve_single = old_pair, old_single
    # ---- oracle on the trace -------------------------------------------------------------------
    steps = len(tt) - 1
    want = [(i, tt[i + 1]) for i in range(steps)]
    if [(i, t) for i, t in trace["complete"]] != want:
        return f"time steps completed as {trace['complete']}, expected {want}", trace
    times = list(res.get_result_times("occupation"))
    if len(times) != len(ev) or any(abs(a - b) > 1e-9 for a, b in zip(times, ev)):
        return f"occupation stored at {times}, due at {ev}", trace
    if trace["fill"] != [0.0] + [t for _, t in want]:
        return f"fill_results fired at {trace['fill']}", trace
    for step, cur, tgt in trace["targets"]:
        if not (tt[step] - 1e-9 <= tgt <= tt[step + 1] + 1e-9):
            return f"evolution target {tgt} outside step {step} = [{tt[step]}, {tt[step + 1]}]", trace
    last = -1.0
    for step, tj, upto in trace["jumps"]:
        if not (tt[step] - 1e-9 <= tj <= tt[step + 1] + 1e-9):
            return f"jump at {tj} outside step {step} = [{tt[step]}, {tt[step + 1]}]", trace
        if tj < last - 1e-9:
            return f"jump times decrease: {tj} after {last}", trace
        last = tj
        # sign change within 1 ns bracketing the jump: use the gaps recorded in this step up to the jump, plus the step start (gap > 0 there)
        hist = [(t, g) for (t, g, s) in trace["gaps"][:upto] if s == step]
        ok = False
        for (t1, g1), (t2, g2) in itertools.combinations(hist, 2):
            if g1 * g2 <= 0 and abs(t1 - t2) <= 1 + 1e-9 and min(t1, t2) - 1e-9 <= tj <= max(t1, t2) + 1e-9:
                ok = True
        # the bracket's positive end may be the start of the search (time of the previous completed evolution)
        if not ok:
            pos = [t for (t, g) in hist if g > 0] + [tt[step]] + [t for (_, t, _) in trace["jumps"] if t < tj]
            neg = [t for (t, g) in hist if g <= 0]
            ok = any(abs(a - b) <= 1 + 1e-9 and min(a, b) - 1e-9 <= tj <= max(a, b) + 1e-9 for a in pos for b in neg)
        if not ok:
            return f"jump at {tj} (step {step}) is not within 1 ns of a recorded sign change of norm^2 - threshold; history {rnd(hist, 4)}", trace
    return None, trace


def run_case(case):
    label = " ".join(f"{k}={v}" for k, v in case.items())
    paths = 0
    calls = 0
    jumps = 0
    maxcalls = 0
    try:
        for choices, (err, trace) in explore.explore_answers(lambda ch: _path(case, ch), case["bound"], max_paths=400000):
            paths += 1
            calls += trace["calls"]
            maxcalls = max(maxcalls, trace["calls"])
            jumps += 1 if trace["jumps"] else 0
            if err:
                kind = err.split(" ")[0] if not err.startswith("AssertionError") else "assertion"
                zero = any(abs(g) == 0.0 for (_, g, _) in trace["gaps"])
                sig = f"{kind}|{'with-exact-zero' if zero else 'generic'}"
                return result(False, sig=sig, msg=f"{label}: answer path {choices}: {err}", outcome=["viol", sig], states=paths, transitions=calls)
    except RuntimeError as e:
        return result(False, sig="HARNESS", msg=f"{label}: {e}", outcome="harness")
    return result(True, outcome=["ok", paths, jumps, maxcalls], states=paths, transitions=calls, nontrivial=jumps > 0, extra={"paths": paths, "with_jump": jumps, "max_calls": maxcalls})
