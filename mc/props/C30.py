"""
C30 - emu-sv gradients equal finite differences of the emulated results.

E1: complete product differentiation target x parameter values x loss x size.
 level "steps": hand-built per-step tensors (Omega, delta, phi [steps x atoms], interaction matrix, initial state) pushed through the
   real SVBackend._run_from_sequence_data; values include phi = 0, Omega = 0, equal neighbouring steps;
 level "pulser": numeric parameters of Pulser waveforms (constant amplitude / detuning, ramp end points, Blackman area, pulse phase;
   flat and constant segments) through the public SVBackend(seq).run().
Losses: sum of occupations, fidelity with a fixed state, overlap of the returned state with a fixed state, energy.
Oracle: central finite differences of the SAME real forward run (h = 1e-4 and 5e-5 must agree - Richardson - before they are
compared); the AD gradient must be finite and |g_AD - g_FD| <= 2e-5 (1 + |g|).
"""
import contextlib
import io
import itertools
import logging

import numpy as np

from mc.core import result, rnd

ID = "C30"
LEVEL = "model_checking"
ENGINE = "E1 small-scope product explorer over (differentiation target, parameter value alphabet, loss, N)"
RULE = (
    "case = (level, N, drive values, loss); all entries of all differentiable parameters are compared with finite differences "
    "(2 x 2 forward runs per entry); states = cases; transitions = forward+backward runs; non-trivial = some gradient entry > 1e-6"
)
ASSUMPTIONS = [
    "finite differences of the real forward run are the reference (h in {1e-4, 5e-5}, both must agree to 1e-6 relative-absolute)",
    "StateResult cannot be requested in a differentiable run (it deep-copies a non-leaf tensor and torch refuses): a refusal, not a wrong gradient; losses on the state are built from Fidelity instead",
    "the initial state is given as a complex leaf tensor; its gradient is compared entry-wise with finite differences of the real and imaginary parts",
    "InterpolatedWaveform values are not differentiable in pulser-core 1.9.1 itself (np.array() on the values) and are not in the alphabet",
]
CHUNK = 1
LOSSES = ["occupation", "fidelity", "energy"]


def bounds(tier, seed):
    return {
        "levels": ["steps (SVBackend._run_from_sequence_data)", "evolve (one EvolveStateVector step, input state differentiable)", "pulser (SVBackend(seq).run())"],
        "N": [1, 2] + ([3] if tier == "thorough" else []),
        "step_values": ["generic", "phi=0", "Omega=0 on one atom", "equal neighbouring steps", "zero interaction"],
        "pulser_sequences": ["const+ramp", "blackman+const", "blackman of odd duration (symmetric peak on a sample)", "ramp-to-zero+const", "two pulses with phases", "two local channels with independent but exactly equal parameters"],
        "losses": LOSSES,
    }


def cases(tier, seed):
    for n in [1, 2] + ([3] if tier == "thorough" else []):
        for vals in ("generic", "phi0", "omega0", "flat", "nointer"):
            for loss in LOSSES:
                yield {"level": "steps", "n": n, "values": vals, "loss": loss, "seed": seed}
        for vals in ("generic", "phi0", "omega0", "nointer"):
            for loss in ("overlap", "occupation"):
                yield {"level": "evolve", "n": n, "values": vals, "loss": loss, "seed": seed}
        for kind in ("const_ramp", "blackman", "blackman_odd", "ramp_zero", "two_pulses") + (("local_equal",) if n >= 2 else ()):
            for loss in LOSSES:
                yield {"level": "pulser", "n": n, "values": kind, "loss": loss, "seed": seed}


def _loss_from(res, loss, n, mod):
    import torch

    if loss == "occupation":
        return res.occupation[-1].sum()
    if loss == "energy":
        return res.energy[-1]
    if loss == "fidelity":
        return res.fidelity[-1]
    st = res.state[-1]
    tgt = torch.ones(2**n, dtype=torch.complex128) / np.sqrt(2**n)
    return torch.abs(torch.vdot(tgt, st.data)) ** 2


def _observables(loss, n):
    import emu_sv as sv

    ev = [1.0]
    if loss == "occupation":
        return [sv.Occupation(evaluation_times=ev)]
    if loss == "energy":
        return [sv.Energy(evaluation_times=ev)]
    if loss == "fidelity":
        amps = {"r" * n: 0.6, "g" * n: 0.8j}
        return [sv.Fidelity(state=sv.StateVector.from_state_amplitudes(eigenstates=("r", "g"), amplitudes=amps), evaluation_times=ev)]
    return [sv.StateResult(evaluation_times=ev)]


def _steps_forward(params, case):
    """params: dict name -> real tensor"""
    import torch
    import emu_sv as sv
    from emu_base import HamiltonianType, SequenceData

    n = case["n"]
    steps = params["omega"].shape[0]
    U = params["U"]
    Um = torch.zeros(n, n, dtype=torch.float64)
    k = 0
    for i in range(n):
        for j in range(i + 1, n):
            Um = Um + U[k] * (torch.nn.functional.one_hot(torch.tensor(i), n).double().unsqueeze(1) * torch.nn.functional.one_hot(torch.tensor(j), n).double().unsqueeze(0))
            k += 1
    Um = Um + Um.T
    psi = params["psi"]
    cfg = sv.SVConfig(dt=10, krylov_tolerance=1e-12, observables=_observables(case["loss"], n), log_level=logging.CRITICAL, gpu=False, initial_state=sv.StateVector(psi, gpu=False))
    sd = SequenceData(
        omega=params["omega"].to(torch.complex128),
        delta=params["delta"].to(torch.complex128),
        phi=params["phi"].to(torch.complex128),
        interaction_matrix=lambda t: Um,
        qubit_ids=tuple(f"q{i}" for i in range(n)),
        bad_atoms=tuple(False for _ in range(n)),
        lindblad_ops=[],
        state_prep_error=0.0,
        target_times=[10.0 * i for i in range(steps + 1)],
        eigenstates=["r", "g"],
        hamiltonian_type=HamiltonianType.Rydberg,
    )
    with contextlib.redirect_stdout(io.StringIO()):
        res = sv.SVBackend._run_from_sequence_data(sd, cfg)
    return _loss_from(res, case["loss"], n, sv)


def _evolve_forward(params, case):
    """one step of the real time-evolution function, differentiable in every argument including the input state"""
    import torch
    from emu_sv.time_evolution import EvolveStateVector

    n = case["n"]
    U = torch.zeros(n, n, dtype=torch.float64)
    k = 0
    rows = []
    for i in range(n):
        for j in range(i + 1, n):
            e = torch.zeros(n, n, dtype=torch.float64)
            e[i, j] = e[j, i] = 1.0
            U = U + params["U"][k] * e
            k += 1
    out, _ = EvolveStateVector.apply(
        0.02,
        params["omega"][0].to(torch.complex128),
        params["delta"][0].to(torch.complex128),
        params["phi"][0].to(torch.complex128),
        U,
        params["psi"],
        1e-12,
        [],
    )
    if case["loss"] == "overlap":
        tgt = torch.ones(2**n, dtype=torch.complex128) / np.sqrt(2**n)
        return torch.abs(torch.vdot(tgt, out)) ** 2
    probs = (out.conj() * out).real.reshape([2] * n)
    return sum(probs.select(q, 1).sum() for q in range(n))


def _steps_params(case):
    import torch

    n, vals = case["n"], case["values"]
    rs = np.random.RandomState(100 + case["seed"] + n)
    steps = 3
    om = 2.0 + 6.0 * rs.rand(steps, n)
    de = 8.0 * rs.rand(steps, n) - 4.0
    ph = 2.0 * rs.rand(steps, n) - 1.0
    U = 3.0 + 5.0 * rs.rand(max(1, n * (n - 1) // 2))
    if vals == "phi0":
        ph[:] = 0.0
    if vals == "omega0":
        om[:, 0] = 0.0
    if vals == "flat":
        om[1] = om[0]
        de[2] = de[1]
        ph[1] = ph[0]
    if vals == "nointer":
        U[:] = 0.0
    psi = rs.normal(size=2**n) + 1j * rs.normal(size=2**n)
    psi /= np.linalg.norm(psi)
    t = lambda a: torch.tensor(a, dtype=torch.float64)  # noqa: E731
    return {"omega": t(om), "delta": t(de), "phi": t(ph), "U": t(U), "psi": torch.tensor(psi, dtype=torch.complex128)}


def _pulser_seq(params, case):
    from pulser import Pulse, Register, Sequence
    from pulser.devices import MockDevice
    from pulser.waveforms import BlackmanWaveform, ConstantWaveform, RampWaveform

    n = case["n"]
    p = params["p"]
    reg = Register({f"q{i}": [7.0 * i, 0.0] for i in range(n)})
    seq = Sequence(reg, MockDevice)
    kind = case["values"]
    if kind == "local_equal":
        # two atoms driven through their own local channels by INDEPENDENT parameters that happen to hold exactly equal values
        # (the symmetric start of an optimisation): the samples of the two atoms are equal, their gradients are not shared
        seq.declare_channel("l0", "rydberg_local", initial_target="q0")
        seq.declare_channel("l1", "rydberg_local", initial_target="q1")
        seq.add(Pulse(ConstantWaveform(40, p[0]), ConstantWaveform(40, p[1]), p[3]), "l0")
        seq.add(Pulse(ConstantWaveform(40, p[2]), ConstantWaveform(40, p[4]), p[3]), "l1", protocol="no-delay")
        return seq
    seq.declare_channel("ch", "rydberg_global")
    if kind == "const_ramp":
        seq.add(Pulse(ConstantWaveform(40, p[0]), RampWaveform(40, p[1], p[2]), p[3]), "ch")
    elif kind == "blackman":
        seq.add(Pulse(BlackmanWaveform(40, p[0]), ConstantWaveform(40, p[1]), p[3]), "ch")
    elif kind == "blackman_odd":
        # odd duration: the samples have an exactly symmetric peak y[i-1] == y[i+1] != y[i]
        seq.add(Pulse(BlackmanWaveform(41, p[0]), ConstantWaveform(41, p[1]), p[3]), "ch")
    elif kind == "ramp_zero":
        seq.add(Pulse(RampWaveform(40, p[0], 0.0), ConstantWaveform(40, p[1]), 0.0), "ch")
    else:
        seq.add(Pulse(ConstantWaveform(20, p[0]), ConstantWaveform(20, p[1]), p[3]), "ch")
        seq.add(Pulse(ConstantWaveform(20, p[2]), RampWaveform(20, p[1], p[4]), p[3] + 0.5), "ch")
    return seq


def _pulser_forward(params, case):
    import emu_sv as sv

    n = case["n"]
    seq = _pulser_seq(params, case)
    cfg = sv.SVConfig(dt=10, krylov_tolerance=1e-12, observables=_observables(case["loss"], n), log_level=logging.CRITICAL, gpu=False)
    with contextlib.redirect_stdout(io.StringIO()):
        res = sv.SVBackend(seq, config=cfg).run()
    return _loss_from(res, case["loss"], n, sv)


def _pulser_params(case):
    import torch

    base = {"const_ramp": [5.0, -3.0, 4.0, 0.4, 0.0], "blackman": [1.6, 2.0, 0.0, 0.3, 0.0], "blackman_odd": [1.6, 2.0, 0.0, 0.3, 0.0], "ramp_zero": [8.0, -2.0, 0.0, 0.0, 0.0], "two_pulses": [6.0, 1.5, 3.0, 0.7, -2.5], "local_equal": [5.0, -2.0, 5.0, 0.4, -2.0]}[case["values"]]
    return {"p": torch.tensor(base, dtype=torch.float64)}


def _frozen_energy_fd(case, params, name, i, part, fwd):
    """d/dp <psi(p)| H(p0) |psi(p)> by finite differences: state from the real forward run (StateResult), H(p0) read once from the run at p0."""
    import torch
    import emu_sv as sv

    box = {}
    orig = _observables

    def obs(loss, n):
        return [sv.StateResult(evaluation_times=[1.0]), sv.Energy(evaluation_times=[1.0])]

    def loss_from(res, loss, n, mod):
        box["psi"] = res.state[-1].data.detach().clone()
        return res.energy[-1]

    g = globals()
    old = (g["_observables"], g["_loss_from"])
    g["_observables"], g["_loss_from"] = obs, loss_from
    try:
        # dense H(p0) from energies of basis probes is overkill: use the emulator's own H action through a second run is not possible;
        # instead use linearity: E0(psi) = <psi|H0|psi> with H0 rebuilt from the dense reference of the last step
        with torch.no_grad():
            fwd({k: v.clone() for k, v in params.items()}, case)
        H0 = _dense_last_H(case, params)
        vals = []
        for sgn in (+1, -1):
            q = {k: v.clone() for k, v in params.items()}
            q[name].reshape(-1)[i] += sgn * 5e-5 * part
            with torch.no_grad():
                fwd(q, case)
            psi = box["psi"].numpy()
            vals.append(float(np.real(np.vdot(psi, H0 @ psi))))
        return (vals[0] - vals[1]) / 1e-4
    finally:
        g["_observables"], g["_loss_from"] = old


def _dense_last_H(case, params):
    from mc.ref.dense_ham import dense_hamiltonian

    n = case["n"]
    if case["level"] == "steps":
        U = np.zeros((n, n))
        k = 0
        for a in range(n):
            for b in range(a + 1, n):
                U[a, b] = U[b, a] = float(params["U"][k])
                k += 1
        return dense_hamiltonian(params["omega"][-1].numpy(), params["delta"][-1].numpy(), params["phi"][-1].numpy(), U)
    from mc.ref import pulser_ref as R

    seq = _pulser_seq({"p": [float(x) for x in params["p"]]}, case)
    T = seq.get_duration()
    times = [10.0 * k for k in range(T // 10 + 1)] + ([float(T)] if T % 10 else [])
    om, de, ph = R.midpoint_drive(seq, False, times, list(seq.register.qubit_ids))
    return dense_hamiltonian(om[-1], de[-1], ph[-1], R.interaction(seq, "rydberg"))


def run_case(case):
    import torch

    fwd = {"steps": _steps_forward, "evolve": _evolve_forward, "pulser": _pulser_forward}[case["level"]]
    params = _pulser_params(case) if case["level"] == "pulser" else _steps_params(case)
    label = " ".join(f"{k}={v}" for k, v in case.items() if k != "seed")
    used = {"const_ramp": [0, 1, 2, 3], "blackman": [0, 1, 3], "blackman_odd": [0, 1, 3], "ramp_zero": [0, 1], "two_pulses": [0, 1, 2, 3, 4], "local_equal": [0, 1, 2, 3, 4]}
    leaves = {k: v.clone().requires_grad_(True) for k, v in params.items()}
    transitions = 0
    try:
        loss = fwd(leaves, case)
        grads = torch.autograd.grad(loss, list(leaves.values()), allow_unused=True)
        transitions += 1
    except Exception as e:
        if case["loss"] == "energy" and isinstance(e, TypeError) and "index_add_" in str(e) and "alpha" in str(e):
            return result(False, sig="raises|energy-observable-with-nonzero-phase-under-autograd|TypeError:index_add_ alpha", msg=f"{label}: forward raised {type(e).__name__}: {str(e)[:200]}", outcome="raise-energy")
        return result(False, sig=f"raises|{case['level']}|{case['loss']}|{type(e).__name__}", msg=f"{label}: forward/backward raised {type(e).__name__}: {str(e)[:300]}", outcome="raise")
    gmax = 0.0
    for (name, leaf), g in zip(leaves.items(), grads):
        g = torch.zeros_like(leaf) if g is None else g
        flat = leaf.detach().reshape(-1)
        idxs = used[case["values"]] if case["level"] == "pulser" else range(flat.numel())
        if case["level"] == "evolve" and name in ("omega", "delta", "phi"):
            idxs = range(case["n"])  # only the first row is used by a single step
        parts = [1.0]
        if name == "psi":
            idxs = range(min(flat.numel(), 4))
            parts = [1.0, 1j]
        for i, part in itertools.product(idxs, parts):
            gi = complex(g.reshape(-1)[i])
            ad = gi.real if part == 1.0 else gi.imag
            if not np.isfinite(ad):
                return result(False, sig=f"nonfinite|{case['level']}|{name}", msg=f"{label}: d loss / d {name}[{i}] = {ad}", outcome="nan")
            fds = []
            for h in (1e-4, 5e-5):
                vals = []
                for sgn in (+1, -1):
                    q = {k: v.clone() for k, v in params.items()}
                    q[name] = q[name].clone()
                    q[name].reshape(-1)[i] += sgn * h * part
                    with torch.no_grad():
                        vals.append(float(fwd(q, case)))
                    transitions += 1
                fds.append((vals[0] - vals[1]) / (2 * h))
            if not abs(fds[0] - fds[1]) <= 1e-6 * (1 + abs(fds[1])):  # NaN fails
                continue  # finite differences not converged: no verdict for this entry
            fd = (4 * fds[1] - fds[0]) / 3
            gmax = max(gmax, abs(fd))
            if not abs(ad - fd) <= 2e-5 * (1 + abs(fd)):  # NaN fails
                sig = f"grad|{case['loss']}-loss|{case['level']}|{name}"
                if name == "psi" and float(torch.abs(g).max()) == 0.0:
                    sig = "grad|initial-state-through-config|identically-zero"
                if case["loss"] == "energy":
                    # recorded defect: the Hamiltonian handed to the observable is detached from the graph, so only the state's dependence on
                    # the parameter is differentiated.  Characterise it exactly: AD must equal the derivative of <psi(p)|H(p0)|psi(p)>.
                    try:
                        fz = _frozen_energy_fd(case, params, name, i, part, fwd)
                        if abs(ad - fz) <= 2e-5 * (1 + abs(fz)):
                            sig = "grad|energy-loss|explicit-dependence-of-H-on-the-parameter-dropped"
                    except Exception:
                        pass
                return result(False, sig=sig, msg=f"{label}: d loss / d {name}[{i}]: autograd {ad:.8g}, finite differences {fd:.8g}", outcome=["grad", sig])
    return result(True, outcome=["ok", round(gmax, 5)], transitions=transitions, nontrivial=gmax > 1e-6)
