"""
C08 - Lanczos ground-state search is variational and meets its residual.

E1: complete product over dimension x spectrum class x |H| x start-vector class x residual tolerance
x max_krylov_dim x max_restarts on krylov_energy_minimization_impl and the public wrapper; oracle
numpy.linalg.eigvalsh.
"""
import itertools

import numpy as np
import torch

from mc.core import result

ID = "C08"
LEVEL = "model_checking"
ENGINE = "E1 small-scope product explorer over Hermitian operator classes and solver budgets"
RULE = (
    "case = (dimension, spectrum class, norm, residual tolerance, max_krylov_dim, max_restarts); inside a case "
    "every start-vector class (ground state, excited eigenvector, orthogonal to the ground space, generic, "
    "generic x1e-3, generic x1e3, zero) is run; non-trivial = dimension > 1"
)
ASSUMPTIONS = [
    "one seeded unitary per dimension; rounding allowance 64*eps*|H|*iterations on the residual, 1e-10*|H| on energies",
]
CHUNK = 4

SPECS = ["gapped", "clustered", "degenerate_ground", "degenerate_blocks", "single"]


def _alph(tier):
    if tier == "quick":
        return dict(d=[1, 2, 3, 4, 8, 16, 32], norm=[1.0, 30.0], tol=[1e-4, 1e-8, 1e-11], mk=[2, 3, 5, 20, 100], mr=[0, 1, 3, 100])
    return dict(d=[1, 2, 3, 4, 8, 16, 32, 128], norm=[0.01, 1.0, 30.0], tol=[1e-4, 1e-8, 1e-11], mk=[2, 3, 5, 20, 100], mr=[0, 1, 3, 100])


def bounds(tier, seed):
    b = _alph(tier)
    b.update(spectra=SPECS, vectors=["ground", "excited", "orth_ground", "generic", "generic*1e-3", "generic*1e3", "zero"])
    return b


def cases(tier, seed):
    a = _alph(tier)
    for d, spec, norm, tol, mk, mr in itertools.product(a["d"], SPECS, a["norm"], a["tol"], a["mk"], a["mr"]):
        if d == 1 and spec != "single":
            continue
        if d < 4 and spec in ("degenerate_ground", "degenerate_blocks", "clustered") and d < 2:
            continue
        yield {"d": d, "spec": spec, "norm": norm, "tol": tol, "mk": mk, "mr": mr, "seed": seed}


_Q = {}


def _unitary(d, seed):
    if (d, seed) not in _Q:
        r = np.random.RandomState(313 + 7 * seed + d)
        q, _ = np.linalg.qr(r.normal(size=(d, d)) + 1j * r.normal(size=(d, d)))
        _Q[d, seed] = q
    return _Q[d, seed]


def _spectrum(d, spec):
    if spec == "gapped":
        return np.linspace(-1.0, 1.0, d) if d > 1 else np.array([1.0])
    if spec == "clustered":
        lam = np.linspace(-1.0, 1.0, d)
        k = max(2, d // 4)
        lam[:k] = -1.0 + 1e-6 * np.arange(k)
        return lam
    if spec == "degenerate_ground":
        lam = np.linspace(-1.0, 1.0, d)
        lam[: max(2, d // 4)] = -1.0
        return lam
    if spec == "degenerate_blocks":
        return np.array([-1.0 if i < d / 2 else 1.0 for i in range(d)])
    return np.full(d, -0.7)


def run_case(case):
    from emu_base.math.krylov_energy_min import krylov_energy_minimization, krylov_energy_minimization_impl

    d, seed = case["d"], case["seed"]
    q = _unitary(d, seed)
    lam = _spectrum(d, case["spec"]) * case["norm"]
    H = (q * lam) @ q.conj().T
    H = 0.5 * (H + H.conj().T)
    Ht = torch.tensor(H, dtype=torch.complex128)
    ev = np.linalg.eigvalsh(H)
    e0 = ev[0]
    nH = max(np.abs(ev).max(), 1e-300)
    op = lambda x: Ht @ x  # noqa: E731
    r = np.random.RandomState(11 + seed + d)
    gen = r.normal(size=d) + 1j * r.normal(size=d)
    ground_mask = np.abs(lam - lam.min()) < 1e-12 * max(1.0, abs(lam.min()))
    orth = q[:, ~ground_mask] @ (1.0 + r.rand((~ground_mask).sum())) if (~ground_mask).any() else None
    vecs = [("ground", q[:, 0].copy()), ("generic", gen), ("generic*1e-3", gen * 1e-3), ("generic*1e3", gen * 1e3), ("zero", np.zeros(d, dtype=complex))]
    if not d <= 1:  # NaN fails
        vecs.append(("excited", q[:, -1].copy()))
    if orth is not None:
        vecs.append(("orth_ground", orth))
    tol, mk, mr = case["tol"], case["mk"], case["mr"]
    outcomes = []
    n_run = 0
    for vname, v in vecs:
        n_run += 1
        vt = torch.tensor(v, dtype=torch.complex128)
        try:
            res = krylov_energy_minimization_impl(op, vt.clone(), residual_tolerance=tol, norm_tolerance=1e-12, max_krylov_dim=mk, max_restarts=mr)
        except ValueError as e:
            if vname == "zero":
                outcomes.append((vname, "refused"))
                continue
            return result(False, sig=f"impl-raises|{vname}", msg=f"raised {e!r} for start vector {vname}, {case}", outcome="raise")
        if vname == "zero":
            return result(False, sig="zero-vector-accepted", msg=f"a zero start vector did not raise ({case})", outcome="viol")
        psi = res.ground_state.numpy()
        E = float(res.ground_energy)
        nrm = np.linalg.norm(psi)
        if not abs(nrm - 1) <= 1e-10:  # NaN fails
            return result(False, sig="not-unit", msg=f"returned vector has norm {nrm!r}; vector {vname}, {case}", outcome="viol")
        rq = np.vdot(psi, H @ psi).real / nrm**2
        if not abs(rq - E) <= 1e-10 * nH:  # NaN fails
            return result(False, sig="energy-not-rayleigh", msg=f"energy {E!r} != Rayleigh quotient {rq!r}; vector {vname}, {case}", outcome="viol")
        if E < e0 - 1e-10 * nH:
            return result(False, sig="below-ground", msg=f"energy {E!r} below lowest eigenvalue {e0!r}; vector {vname}, {case}", outcome="viol")
        true_res = np.linalg.norm(H @ psi - E * psi)
        if res.converged and not res.happy_breakdown:
            allowed = tol + 64 * 2.2e-16 * nH * max(res.iteration_count, 1)
            if not true_res < allowed:
                return result(
                    False,
                    sig="residual-not-met",
                    msg=f"converged without breakdown but |H psi - E psi| = {true_res:.3e} >= {allowed:.3e}; vector {vname}, it={res.iteration_count}, restarts={res.restart_count}, {case}",
                    outcome="viol",
                )
        # public wrapper: returns iff converged or happy breakdown
        try:
            gs, en = krylov_energy_minimization(op, vt.clone(), norm_tolerance=1e-12, residual_tolerance=tol, max_krylov_dim=mk)
            pub = "ret"
            res100 = krylov_energy_minimization_impl(op, vt.clone(), residual_tolerance=tol, norm_tolerance=1e-12, max_krylov_dim=mk)
            if not (res100.converged or res100.happy_breakdown):
                return result(False, sig="public-returns-unconverged", msg=f"public wrapper returned although the search did not converge; vector {vname}, {case}", outcome="viol")
            if en < e0 - 1e-10 * nH:
                return result(False, sig="public-below-ground", msg=f"public energy {en!r} below {e0!r}; {case}", outcome="viol")
        except RecursionError:
            pub = "raise"
        outcomes.append((vname, bool(res.converged), bool(res.happy_breakdown), res.restart_count, pub))
    return result(True, outcome=outcomes, transitions=3 * n_run, states=n_run, nontrivial=d > 1)
