"""Contract MPS / MPO factor lists (torch or numpy) to dense numpy objects."""
import numpy as np


def _np(t):
    try:
        return t.detach().cpu().numpy()
    except AttributeError:
        return np.asarray(t)


def mps_to_vec(factors):
    """factors[i]: (left, phys, right). Qubit 0 most significant."""
    acc = _np(factors[0])
    acc = acc.reshape(acc.shape[0], -1, acc.shape[-1])
    for f in factors[1:]:
        f = _np(f)
        acc = np.einsum("apb,bqc->apqc", acc, f).reshape(acc.shape[0], -1, f.shape[-1])
    assert acc.shape[0] == 1 and acc.shape[2] == 1
    return acc.reshape(-1)


def mpo_to_mat(factors):
    """factors[i]: (left, out, in, right)."""
    acc = _np(factors[0])
    for f in factors[1:]:
        f = _np(f)
        acc = np.einsum("aijb,bklc->aikjlc", acc, f)
        s = acc.shape
        acc = acc.reshape(s[0], s[1] * s[2], s[3] * s[4], s[5])
    assert acc.shape[0] == 1 and acc.shape[3] == 1
    return acc[0, :, :, 0]
