"""
Pulser's own definition of the Lindblad collapse operators of a noise model (pulser-core
HamiltonianData.lindblad_data), as dense matrices in the emulator's level order:
ising (g, r[, x]) ; XY (u, d[, x]).   No emulator code is used.
"""
from __future__ import annotations

import numpy as np


def pulser_collapse_ops(hamiltonian_data):
    """single-atom collapse operators (list of d x d arrays, emulator level order), tags, d, is_xy"""
    hd = hamiltonian_data
    eig = list(hd.basis_data.eigenbasis)
    d = len(eig)
    isxy = hd.basis_data.interaction_type == "XY"
    ld = hd.lindblad_data

    def sigma(name):
        a, b = name[len("sigma_")], name[len("sigma_") + 1]
        m = np.zeros((d, d), dtype=complex)
        m[eig.index(a), eig.index(b)] = 1
        return m

    ops, tags = [], []
    for coeff, op in ld.local_collapse_ops:
        if isinstance(op, str):
            if op.startswith("sigma_"):
                m = sigma(op)
                tags.append("dephasing" if op[-1] == op[-2] else "relaxation")
            else:
                m = sum(c * sigma(n) for c, n in ld.depolarizing_pauli_2ds[op])
                tags.append("depolarizing")
        else:
            m = np.asarray(op, dtype=complex)
            tags.append("eff")
        ops.append(coeff * m)
    emu_order = (["u", "d"] if isxy else ["g", "r"]) + (["x"] if "x" in eig else [])
    P = np.zeros((d, d))
    for k, s in enumerate(emu_order):
        P[k, eig.index(s)] = 1
    return [P @ L @ P.T for L in ops], tags, d, isxy


def collapse_ops_for(seq, noise_model, with_modulation=False):
    from pulser._hamiltonian_data import HamiltonianData

    hd = HamiltonianData.from_sequence(seq, with_modulation=with_modulation, noise_model=noise_model, n_trajectories=1)
    return pulser_collapse_ops(hd)
