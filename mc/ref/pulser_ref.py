"""
Adapter-independent reading of a Pulser sequence (uses pulser-core + numpy/scipy only, never
emu_* code):

 * time grid, per-step midpoint drive values (SciPy PCHIP over Pulser's 1-ns samples),
 * interaction matrix from coordinates and device coefficients, SLM window,
 * piecewise-constant propagation with scipy expm (state vector and density matrix),
 * 1-ns-resolution propagation straight from Pulser's samples (loose oracle).
"""
from __future__ import annotations

import numpy as np
from scipy.interpolate import PchipInterpolator
from scipy.linalg import expm

from mc.ref.dense_ham import dense_hamiltonian, embed, pad, N_OP


def grid(T: float, dt: float, eval_times) -> list[float]:
    """Reference target times: multiples of dt up to T, T itself and every requested time."""
    n = int(np.floor(T / dt + 1e-12))
    ts = [i * dt for i in range(n + 1)] + [float(T)] + [float(e) * T for e in eval_times]
    ts = sorted(ts)
    out: list[float] = []
    for t in ts:
        if t > T + 1e-9:
            continue
        if not out or t - out[-1] > 1e-7 * max(T, 1.0):
            out.append(t)
    out[-1] = float(T)
    return out


def samples_local(seq, with_modulation: bool, basis_key: str | None = None):
    from pulser.sampler import sample

    # same call Pulser's own emulator back-end makes (pulser-core HamiltonianData.from_sequence)
    s = sample(
        seq,
        modulation=with_modulation,
        extended_duration=seq.get_duration(include_fall_time=with_modulation),
    )
    d = s.to_nested_dict(all_local=True)["Local"]
    if basis_key is None:
        assert len(d) == 1, list(d)
        basis_key = next(iter(d))
    return d[basis_key], s.max_duration


def midpoint_drive(seq, with_modulation: bool, target_times, qubit_ids):
    """(omega, delta, phi): arrays [step, atom]; PCHIP of Pulser's samples at the step midpoints."""
    loc, T = samples_local(seq, with_modulation)
    tg = np.arange(T, dtype=float)
    tt = np.asarray(target_times, dtype=float)
    mid = 0.5 * (tt[:-1] + tt[1:])
    out = {}
    for name in ("amp", "det", "phase"):
        arr = np.zeros((len(mid), len(qubit_ids)))
        for k, q in enumerate(qubit_ids):
            y = np.asarray(loc[q][name], dtype=float)
            if len(tg) == 1:
                arr[:, k] = y[0]
            else:
                arr[:, k] = PchipInterpolator(tg, y, extrapolate=True)(mid)
        if name == "amp":
            arr = np.maximum(arr, 0.0)
        out[name] = arr
    return out["amp"], out["det"], out["phase"]


def interaction(seq, kind: str = "rydberg") -> np.ndarray:
    reg = seq.register
    ids = list(reg.qubit_ids)
    pos = [np.asarray(reg.qubits[q].as_array() if hasattr(reg.qubits[q], "as_array") else reg.qubits[q], dtype=float) for q in ids]
    n = len(ids)
    U = np.zeros((n, n))
    dev = seq.device
    for i in range(n):
        for j in range(i + 1, n):
            d = pos[i] - pos[j]
            r = round(float(np.linalg.norm(d)), 6)  # Pulser's COORD_PRECISION rounding of distances
            if kind == "rydberg":
                u = dev.interaction_coeff / r**6
            else:
                mag = np.asarray(seq.magnetic_field if seq.magnetic_field is not None else [0.0, 0.0, 30.0], dtype=float)
                d3 = np.array([d[0], d[1], d[2] if len(d) > 2 else 0.0])
                c = d3 @ mag / (r * np.linalg.norm(mag))
                u = dev.interaction_coeff_xy * (1 - 3 * c**2) / r**3
            U[i, j] = U[j, i] = u
    return U


def slm(seq):
    """(masked indices, mask end time) from the sequence's public-ish attributes."""
    targets = list(seq._slm_mask_targets)
    idx = list(seq.register.find_indices(targets)) if targets else []
    end = seq._slm_mask_time[1] if len(seq._slm_mask_time) > 1 else 0.0
    return idx, float(end)


def masked(U, idx):
    M = U.copy()
    for i in idx:
        M[i, :] = 0
        M[:, i] = 0
    return M


def step_hamiltonians(om, de, ph, U_of_step, kind="rydberg", dim=2, noise=None):
    return [
        dense_hamiltonian(om[k], de[k], ph[k], U_of_step(k), kind=kind, dim=dim, noise=noise)
        for k in range(om.shape[0])
    ]


def propagate_sv(psi0, Hs, target_times):
    """psi at every target time (list) under exp(-i H_k dt_k), dt in ns, H in rad/us."""
    out = [np.asarray(psi0, dtype=complex)]
    for k, H in enumerate(Hs):
        dt = (target_times[k + 1] - target_times[k]) * 1e-3
        out.append(expm(-1j * dt * H) @ out[-1])
    return out


def liouvillian(H, Ls):
    d = H.shape[0]
    I = np.eye(d)
    # row-major vectorisation: vec(A rho B) = (A kron B^T) vec(rho)
    L = -1j * (np.kron(H, I) - np.kron(I, H.T))
    for c in Ls:
        cd = c.conj().T
        L += np.kron(c, c.conj()) - 0.5 * np.kron(cd @ c, I) - 0.5 * np.kron(I, (cd @ c).T)
    return L


def propagate_dm(rho0, Hs, Ls, target_times):
    d = rho0.shape[0]
    out = [np.asarray(rho0, dtype=complex)]
    for k, H in enumerate(Hs):
        dt = (target_times[k + 1] - target_times[k]) * 1e-3
        v = expm(dt * liouvillian(H, Ls)) @ out[-1].reshape(-1)
        out.append(v.reshape(d, d))
    return out


def embed_all(ops_single, n, dim):
    """every single-site operator on every site."""
    return [embed(np.asarray(o, dtype=complex), j, n, dim) for j in range(n) for o in ops_single]


def fine_hamiltonians(seq, with_modulation, U_of_time, kind="rydberg", dim=2):
    """1-ns resolution Hamiltonians straight from Pulser's samples (sample k rules [k, k+1))."""
    loc, T = samples_local(seq, with_modulation)
    ids = list(seq.register.qubit_ids)
    Hs = []
    for k in range(T):
        om = [float(np.real(loc[q]["amp"][k])) for q in ids]
        de = [float(np.real(loc[q]["det"][k])) for q in ids]
        ph = [float(np.real(loc[q]["phase"][k])) for q in ids]
        Hs.append(dense_hamiltonian(om, de, ph, U_of_time(k + 0.5), kind=kind, dim=dim))
    return Hs, T


# ------------------------------------------------------------------------------------------------
# dense observable definitions (emulator index convention)
# ------------------------------------------------------------------------------------------------


def occupation(state, n, dim=2, level=1):
    P = np.zeros((dim, dim))
    P[level, level] = 1
    ops = [embed(P, j, n, dim) for j in range(n)]
    return np.array([expect(state, o).real for o in ops])


def correlation(state, n, dim=2, level=1):
    P = np.zeros((dim, dim))
    P[level, level] = 1
    ops = [embed(P, j, n, dim) for j in range(n)]
    return np.array([[expect(state, ops[i] @ ops[j]).real for j in range(n)] for i in range(n)])


def expect(state, O):
    state = np.asarray(state)
    if state.ndim == 1:
        return np.vdot(state, O @ state)
    return np.trace(O @ state)


def born(state, n, dim=2, level=1):
    """probability of each bitstring (MSB = atom 0); levels other than `level` read '0'."""
    state = np.asarray(state)
    p = np.abs(state) ** 2 if state.ndim == 1 else np.real(np.diag(state))
    out = {}
    for idx, pi in enumerate(p):
        digits = np.base_repr(idx, dim).zfill(n)
        bs = "".join("1" if int(c) == level else "0" for c in digits)
        out[bs] = out.get(bs, 0.0) + float(pi)
    return out
