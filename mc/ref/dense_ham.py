"""
Boring dense reference Hamiltonians (numpy only, no emulator code).

Index convention of the emulators: g=0, r=1 (x=2 for the leakage level), XY: first eigenstate
of the emulator's basis =0; qubit 0 is the most significant Kronecker factor.

Pulser convention:  H = sum_j  Omega_j/2 (e^{-i phi_j}|g><r|_j + h.c.) - delta_j n_j
                        + sum_{i<j} U_ij n_i n_j                       (Rydberg / ising)
                        + sum_{i<j} U_ij (s+_i s-_j + s-_i s+_j)       (XY)
"""
import numpy as np


def kron_all(mats):
    out = np.array([[1.0 + 0j]])
    for m in mats:
        out = np.kron(out, m)
    return out


def embed(op, site, n, dim):
    mats = [np.eye(dim, dtype=complex)] * n
    mats = list(mats)
    mats[site] = op
    return kron_all(mats)


def pad(op2, dim):
    out = np.zeros((dim, dim), dtype=complex)
    out[:2, :2] = op2
    return out


N_OP = np.array([[0, 0], [0, 1]], dtype=complex)
SP = np.array([[0, 0], [1, 0]], dtype=complex)  # |1><0|
SM = SP.conj().T


def single_site(omega, delta, phi, dim):
    h = np.zeros((2, 2), dtype=complex)
    h[0, 1] = omega / 2 * np.exp(-1j * phi)
    h[1, 0] = omega / 2 * np.exp(1j * phi)
    h[1, 1] = -delta
    return pad(h, dim)


_PAIR = {}
_SITE = {}


def pair_operator(i, j, n, dim, kind):
    """Dense two-body operator for the pair (i, j); cached, independent of all values."""
    key = (i, j, n, dim, kind)
    if key not in _PAIR:
        if kind == "rydberg":
            op = embed(pad(N_OP, dim), i, n, dim) @ embed(pad(N_OP, dim), j, n, dim)
        else:
            a = embed(pad(SP, dim), i, n, dim) @ embed(pad(SM, dim), j, n, dim)
            op = a + a.conj().T
        _PAIR[key] = op
    return _PAIR[key]


def site_basis(j, n, dim):
    """Embedded matrix units E_ab at site j (cached)."""
    key = (j, n, dim)
    if key not in _SITE:
        out = {}
        for a in range(dim):
            for b in range(dim):
                e = np.zeros((dim, dim), dtype=complex)
                e[a, b] = 1
                out[a, b] = embed(e, j, n, dim)
        _SITE[key] = out
    return _SITE[key]


def dense_hamiltonian(omega, delta, phi, U, kind="rydberg", dim=2, noise=None):
    """noise: optional (dim,dim) matrix added to every site (the -i/2 sum L^dag L term)."""
    n = len(omega)
    H = np.zeros((dim**n, dim**n), dtype=complex)
    for j in range(n):
        s = single_site(omega[j], delta[j], phi[j], dim)
        if noise is not None:
            s = s + np.asarray(noise, dtype=complex)
        basis = site_basis(j, n, dim)
        for (a, b), e in basis.items():
            if s[a, b] != 0:
                H += s[a, b] * e
    U = np.asarray(U)
    for i in range(n):
        for j in range(i + 1, n):
            if U[i, j] != 0:
                H += U[i, j] * pair_operator(i, j, n, dim, kind)
    return H
