"""
Environment-answer exploration helpers shared by several properties (engine E3).
"""
from __future__ import annotations

from collections import Counter

import numpy as np

from mc import seams


def exact_bitstring_distribution(run_fn, max_paths=4096, eps=1e-13):
    """
    Exact distribution of the ONE bitstring drawn by a computation that calls torch.multinomial once per site
    (emu-mps: per-qubit conditional draws, batch of 1) or once per sample call (emu-sv: one draw over 2^N outcomes).

    run_fn() must run the real code requesting exactly ONE shot and return the Counter it produced.
    All answer paths with non-zero probability are enumerated depth-first (stateless: the computation is re-run
    from scratch for every path); a path's probability is the product of the normalised weights the code offered.
    Branches whose normalised weight is below eps (default 1e-13) are not run (their total mass is < 2^N eps).
    Returns (distribution: dict bitstring -> probability, number of paths run).
    """
    dist: dict[str, float] = {}
    paths = 0
    stack = [[]]
    while stack:
        prefix = stack.pop()
        offered = []

        def answer(probs, num_samples, k, _prefix=prefix, _offered=offered):
            p = probs.detach().cpu().numpy().astype(float)
            if p.ndim == 2:
                if p.shape[0] != 1:
                    raise seams.NeedMore("batch>1", p.shape)
                p = p[0]
            if num_samples != 1:
                raise seams.NeedMore("num_samples>1", num_samples)
            _offered.append(p)
            if k < len(_prefix):
                return [[_prefix[k]]] if probs.ndim == 2 else [_prefix[k]]
            # default: first outcome with non-zero weight
            first = int(np.flatnonzero(p > eps * p.sum())[0])
            return [[first]] if probs.ndim == 2 else [first]

        sm = seams.ScriptedMultinomial(answer_fn=answer)
        with seams.torch_multinomial(sm):
            counter = run_fn()
        paths += 1
        if paths > max_paths:
            raise RuntimeError("too many sampling paths")
        if sum(counter.values()) != 1:
            raise AssertionError(f"expected exactly one shot, got {counter}")
        # path actually taken
        taken = []
        prob = 1.0
        for k, p in enumerate(offered):
            tot = p.sum()
            choice = prefix[k] if k < len(prefix) else int(np.flatnonzero(p > eps * tot)[0])
            taken.append(choice)
            prob *= p[choice] / tot
        (bs,) = counter.keys()
        dist[bs] = dist.get(bs, 0.0) + prob
        # siblings below the prefix: every other outcome with non-zero weight at each depth >= len(prefix)
        for k in range(len(prefix), len(offered)):
            p = offered[k]
            for alt in np.flatnonzero(p > eps * p.sum()):
                alt = int(alt)
                if alt != taken[k]:
                    stack.append(taken[:k] + [alt])
    return dist, paths


def dist_distance(a: dict, b: dict) -> float:
    keys = set(a) | set(b)
    return max(abs(a.get(k, 0.0) - b.get(k, 0.0)) for k in keys) if keys else 0.0


# ------------------------------------------------------------------------------------------------
# deviation-bounded depth-first exploration of environment answers (stateless: every path is replayed from scratch)
# ------------------------------------------------------------------------------------------------


class Chooser:
    """Handed to the driver: every call of choose() is a choice point.  Replays `prefix`, then takes option 0 (the default)."""

    def __init__(self, prefix):
        self.prefix = list(prefix)
        self.points = []  # (n_options, costs, chosen)

    def choose(self, n_options, costs=None):
        i = len(self.points)
        c = self.prefix[i] if i < len(self.prefix) else 0
        if c >= n_options:
            raise RuntimeError(f"replay divergence at choice point {i}: option {c} of {n_options}")
        self.points.append((n_options, list(costs) if costs is not None else [0] + [1] * (n_options - 1), c))
        return c

    @property
    def choices(self):
        return [p[2] for p in self.points]


def explore_answers(run, bound, max_paths=None):
    """
    run(chooser) executes ONE complete path on fresh objects and returns its outcome.
    All paths whose total deviation cost is <= bound are executed (depth-first, option 0 = default answer).
    Yields (choices, outcome).  Raises if max_paths is exceeded (a capped run is never reported as complete).
    """
    stack = [[]]
    n = 0
    while stack:
        prefix = stack.pop()
        ch = Chooser(prefix)
        outcome = run(ch)
        n += 1
        if max_paths is not None and n > max_paths:
            raise RuntimeError(f"more than {max_paths} paths")
        if ch.choices[: len(prefix)] != list(prefix):
            raise RuntimeError("replay divergence: the prefix was not consumed as recorded")
        yield ch.choices, outcome
        spent = 0
        costs_before = []
        for (nopt, costs, c) in ch.points:
            costs_before.append(spent)
            spent += costs[c]
        for i in range(len(prefix), len(ch.points)):
            nopt, costs, c = ch.points[i]
            for alt in range(nopt - 1, 0, -1):
                if costs_before[i] + costs[alt] <= bound:
                    stack.append(ch.choices[:i] + [alt])
