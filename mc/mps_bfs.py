"""
E2 operation-history explorer for MPS objects (shared by C10 and C11).

Every history over the operation alphabet up to the depth bound is replayed on FRESH real MPS
objects (no object copying, so tensor sharing between objects of one history is preserved).  After
every transition
  * (C10) canonical-form / bond-cap / truncation-error invariants are evaluated on every live object,
  * (C11) a dense reference model is advanced in lock-step and compared; every live object that the
    operation is not documented to modify must still contract to the same dense vector.
"""
from __future__ import annotations

import contextlib
import io
import itertools

import numpy as np
import torch

from mc.ref.dense_ham import dense_hamiltonian, embed, pad
from mc.ref.mps_dense import mpo_to_mat, mps_to_vec

X2 = np.array([[0, 1], [1, 0]], dtype=complex)
N2 = np.array([[0, 0], [0, 1]], dtype=complex)
SM2 = np.array([[0, 1], [0, 0]], dtype=complex)  # |g><r|

OPS = [
    "orth0",
    "orthmid",
    "orthlast",
    "truncate",
    "truncate_refused",
    "add",
    "addself",
    "addsame",
    "scale",
    "scale1",
    "imul",
    "applyX0",
    "applyNlast",
    "applySmmid",
    "mpo",
    "entropy",
    "corr",
    "expect_batch",
    "norm",
    "inner",
]


def _t(x):
    return torch.tensor(np.asarray(x), dtype=torch.complex128)


def random_factors(n, dim, bonds, seed):
    r = np.random.RandomState(seed)
    dims = [1] + list(bonds) + [1]
    return [_t((r.normal(size=(dims[i], dim, dims[i + 1])) + 1j * r.normal(size=(dims[i], dim, dims[i + 1]))) / np.sqrt(dims[i] * dim)) for i in range(n)]


def eigenstates(dim):
    return ("r", "g") if dim == 2 else ("r", "g", "x")


def make_initial(name, n, dim, precision, cap, seed):
    from emu_mps import MPS

    kw = dict(precision=precision, max_bond_dim=cap, num_gpus_to_use=0, eigenstates=eigenstates(dim))
    if name == "product":
        return MPS.make(n, **kw)
    if name in ("ghz", "ghz_padded"):
        f = []
        for i in range(n):
            l, r_ = (1 if i == 0 else 2), (1 if i == n - 1 else 2)
            t = np.zeros((l, dim, r_), dtype=complex)
            for s in range(2):
                t[min(s, l - 1), s, min(s, r_ - 1)] = 1.0
            f.append(_t(t))
        f[0] = f[0] / np.sqrt(2)
        if name == "ghz_padded":
            # the same state with every bond widened by one unused (all-zero) channel: exact zeros in the Schmidt spectrum
            g = []
            for i, t in enumerate(f):
                l, _, r_ = t.shape
                b = torch.zeros(l + (0 if i == 0 else 1), dim, r_ + (0 if i == n - 1 else 1), dtype=torch.complex128)
                b[:l, :, :r_] = t
                g.append(b)
            f = g
        return MPS(f, orthogonality_center=None, **kw)
    if name == "near_iso":
        # a product state typed with six decimals: every factor is an isometry only up to ~1e-7 (not exactly, not grossly off)
        a = {2: 0.707107, 3: 0.577350}[dim]
        return MPS([_t(np.full((1, dim, 1), a)) for _ in range(n)], orthogonality_center=None, **kw)
    if name in ("thr_lo", "thr_hi"):
        # Schmidt spectrum (s0, s1) at every bond with s1 just below / above the truncation threshold `precision`:
        # sum_k s_k |k k ... k>.  Exact sums such as a + a move s1 across the threshold.
        s1 = (0.7 if name == "thr_lo" else 1.4) * precision
        sv = [np.sqrt(1 - s1**2), s1]
        f = []
        for i in range(n):
            l, r_ = (1 if i == 0 else 2), (1 if i == n - 1 else 2)
            t = np.zeros((l, dim, r_), dtype=complex)
            for k in range(2):
                t[min(k, l - 1), k, min(k, r_ - 1)] = sv[k] if i == 0 else 1.0
            f.append(_t(t))
        return MPS(f, orthogonality_center=None, **kw)
    bonds = [min(dim ** min(i + 1, n - i - 1), 4 if name == "random" else 8) for i in range(n - 1)]
    m = MPS(random_factors(n, dim, bonds, seed + 13 * n + dim), orthogonality_center=None, **kw)
    if name == "random_canonical":
        m.orthogonalize(n // 2)
    return m


INITIALS = ["product", "ghz", "random", "random_canonical", "random_fat", "thr_lo", "thr_hi", "near_iso", "ghz_padded"]


def fixed_other(n, dim, precision, cap, seed):
    from emu_mps import MPS

    bonds = [min(2, cap)] * (n - 1)
    return MPS(random_factors(n, dim, bonds, seed + 77), orthogonality_center=None, precision=precision, max_bond_dim=cap, num_gpus_to_use=0, eigenstates=eigenstates(dim))


def fixed_mpo(n, dim, seed):
    from emu_base import HamiltonianType
    from emu_mps.hamiltonian import make_H, update_H

    r = np.random.RandomState(seed + 5)
    U = np.zeros((n, n))
    for i in range(n - 1):
        U[i, i + 1] = U[i + 1, i] = 1.0 + r.rand()
    if n > 2:
        U[0, n - 1] = U[n - 1, 0] = 0.5
    om, de, ph = 1.0 + r.rand(n), r.rand(n) - 0.5, r.rand(n)
    with contextlib.redirect_stdout(io.StringIO()):
        H = make_H(interaction_matrix=torch.tensor(U), hamiltonian_type=HamiltonianType.Rydberg, dim=dim, num_gpus_to_use=0)
    update_H(hamiltonian=H, omega=_t(om), delta=_t(de), phi=_t(ph), noise=torch.zeros(dim, dim, dtype=torch.complex128))
    return H, dense_hamiltonian(om, de, ph, U, dim=dim)


def dense(mps):
    return mps_to_vec(mps.factors)


def check_canonical(mps, tag, cap=None):
    """C10 invariants on one object. Returns error string or None.
    cap: bond cap to enforce (None: the object has not been through a truncating operation yet)."""
    n = mps.num_sites
    for i, f in enumerate(mps.factors):
        if cap is not None and f.shape[2] > cap and i < n - 1:
            return f"{tag}: bond {i} has dimension {f.shape[2]} > max_bond_dim {cap}"
    c = mps.orthogonality_center
    if c is None:
        return None
    for i, f in enumerate(mps.factors):
        a = f.detach().numpy()
        if i < c:
            m = a.reshape(-1, a.shape[2])
            g = m.conj().T @ m
            if not np.abs(g - np.eye(g.shape[0])).max() <= 1e-10:  # NaN fails
                return f"{tag}: tensor {i} left of the declared centre {c} is not left-orthonormal (dev {np.abs(g - np.eye(g.shape[0])).max():.2e})"
        elif i > c:
            m = a.reshape(a.shape[0], -1)
            g = m @ m.conj().T
            if not np.abs(g - np.eye(g.shape[0])).max() <= 1e-10:  # NaN fails
                return f"{tag}: tensor {i} right of the declared centre {c} is not right-orthonormal (dev {np.abs(g - np.eye(g.shape[0])).max():.2e})"
    nd = np.linalg.norm(dense(mps))
    nc = float(mps.factors[c].norm())
    if not abs(nd - nc) <= 1e-10 * max(1.0, nd):  # NaN fails
        return f"{tag}: norm of the centre tensor {nc} != norm of the state {nd}"
    return None


def entropy_dense(v, n, dim, b):
    m = v.reshape(dim ** (b + 1), -1)
    s = np.linalg.svd(m, compute_uv=False)
    p = s**2
    p = p[p > 0]
    return float(-(p * np.log(p)).sum())


class Violation(Exception):
    def __init__(self, sig, msg):
        super().__init__(msg)
        self.sig = sig


def run_history(n, dim, init, precision, cap, history, seed, mode, cache):
    """
    Replays `history` on fresh objects. mode in {"C10", "C11"}.
    Returns (canonical key of the final state, number of transitions).
    """
    state = make_initial(init, n, dim, precision, cap, seed)
    other = fixed_other(n, dim, precision, cap, seed)
    if "mpo" not in cache:
        cache["mpo"] = fixed_mpo(n, dim, seed)
    H, Hd = cache["mpo"]
    Hd_before = mpo_to_mat(H.factors)
    live = [[state, dense(state), "initial"], [other, dense(other), "other"]]
    enforced = {}  # id(object) -> bond cap that a truncating operation has enforced on it
    cur = 0  # index in live of the object the history acts on
    mid = n // 2
    tol_exact = 1e-11

    def opm(m2, site):
        return embed(pad(m2, dim), site, n, dim)

    for step, op in enumerate(history):
        obj, v, _ = live[cur]
        scale = max(1.0, np.linalg.norm(v))
        expected = {id(o): vv for o, vv, _ in live}
        trunc_tol = None  # None: exact op
        op_cap = obj.max_bond_dim
        if op in ("orth0", "orthmid", "orthlast"):
            k = {"orth0": 0, "orthmid": mid, "orthlast": n - 1}[op]
            ret = obj.orthogonalize(k)
            if mode == "C10" and (ret != k or obj.orthogonality_center != k):
                raise Violation("orthogonalize-centre", f"orthogonalize({k}) left centre {obj.orthogonality_center}")
            new_v = v
        elif op == "truncate":
            obj.truncate()
            new_v = v
            trunc_tol = obj.precision * (n - 1)  # each of the n-1 bonds may discard up to precision (triangle inequality; sqrt(n-1) would assume orthogonal errors)
            if mode == "C10" and obj.orthogonality_center != 0:
                raise Violation("truncate-centre", "truncate() did not leave the centre at 0")
        elif op == "truncate_refused":
            # error path: a truncation the object refuses (precision 0), the caller catches the error and keeps using the object
            old_precision = obj.precision
            obj.precision = 0.0
            try:
                obj.truncate()
                refused = False
            except (AssertionError, TypeError, ValueError, RuntimeError):
                refused = True
            finally:
                obj.precision = old_precision
            new_v = v
            if not refused:
                trunc_tol = 0.0
        elif op == "add":
            res = obj + other
            new_v = v + live[1][1]
            trunc_tol = obj.precision * (n - 1)  # each of the n-1 bonds may discard up to precision (triangle inequality; sqrt(n-1) would assume orthogonal errors)
            live.append([res, None, f"step{step}:add"])
            cur = len(live) - 1
            obj = res
        elif op in ("addself", "addsame"):
            if op == "addself":
                res = obj + obj
                new_v = 2 * v
            else:
                # an operand orthogonalised on the same site as obj (shared orthogonality centre)
                twin = fixed_other(n, dim, precision, cap, seed + 1)
                if obj.orthogonality_center is not None:
                    twin.orthogonalize(obj.orthogonality_center)
                tv = dense(twin)
                live.append([twin, tv, f"step{step}:twin"])
                expected[id(twin)] = tv
                res = obj + twin
                new_v = v + tv
            trunc_tol = obj.precision * (n - 1)  # each of the n-1 bonds may discard up to precision (triangle inequality; sqrt(n-1) would assume orthogonal errors)
            live.append([res, None, f"step{step}:{op}"])
            cur = len(live) - 1
            obj = res
        elif op in ("scale", "imul", "scale1"):
            c = 1.0 if op == "scale1" else 0.5 - 0.3j  # exactly one: the product is still a NEW state that must not share tensors with the operand
            if op in ("scale", "scale1"):
                res = c * obj
            else:
                res = obj
                res *= c
            new_v = c * v
            live.append([res, None, f"step{step}:{op}"])
            cur = len(live) - 1
            obj = res
        elif op.startswith("apply"):
            m2, site = {"applyX0": (X2, 0), "applyNlast": (N2, n - 1), "applySmmid": (SM2, mid)}[op]
            obj.apply(site, _t(pad(m2, dim)))
            new_v = opm(m2, site) @ v
        elif op == "mpo":
            res = H.apply_to(obj)
            new_v = Hd @ v
            trunc_tol = obj.precision * (n - 1) * max(1.0, np.linalg.norm(Hd, 2))
            live.append([res, None, f"step{step}:mpo"])
            cur = len(live) - 1
            obj = res
            scale = max(scale, np.linalg.norm(new_v))
        elif op == "entropy":
            b = min(mid, n - 2)
            got = float(obj.entanglement_entropy(b))
            new_v = v
            if mode == "C11":
                ref = entropy_dense(dense(obj), n, dim, b)
                if not abs(got - ref) <= 1e-9 * max(1.0, abs(ref)):  # written so that a NaN fails
                    raise Violation("entanglement_entropy", f"entanglement_entropy({b}) = {got} but dense value {ref}")
        elif op == "corr":
            got = obj.get_correlation_matrix().numpy().real
            new_v = v
            if mode == "C11":
                vv = dense(obj)
                ns = [opm(N2, i) for i in range(n)]
                ref = np.array([[np.vdot(vv, ns[i] @ ns[j] @ vv).real for j in range(n)] for i in range(n)])
                if not np.abs(got - ref).max() <= 1e-10 * scale**2:  # NaN fails
                    raise Violation("get_correlation_matrix", f"correlation matrix {got.tolist()} != dense {ref.tolist()}")
        elif op == "expect_batch":
            ops2 = [N2, X2, SM2]
            got = obj.expect_batch(torch.stack([_t(pad(o, dim)) for o in ops2])).numpy()
            new_v = v
            if mode == "C11":
                vv = dense(obj)
                ref = np.array([[np.vdot(vv, opm(o, q) @ vv) for o in ops2] for q in range(n)])
                if not np.abs(got - ref).max() <= 1e-10 * scale**2:  # NaN fails
                    raise Violation("expect_batch", f"expect_batch {got.tolist()} != dense {ref.tolist()}")
        elif op == "norm":
            got = float(obj.norm())
            new_v = v
            ref = np.linalg.norm(dense(obj))
            if not abs(got - ref) <= 1e-10 * scale:  # NaN fails
                raise Violation("norm", f"norm() = {got} but the state has norm {ref} (declared centre {obj.orthogonality_center})")
        elif op == "inner":
            got = complex(obj.inner(other))
            got2 = complex(H.expect(obj))
            new_v = v
            if mode == "C11":
                vv, ww = dense(obj), dense(other)
                if not abs(got - np.vdot(vv, ww)) <= 1e-10 * scale * max(1.0, np.linalg.norm(ww)):  # NaN fails
                    raise Violation("inner", f"inner = {got} but dense {np.vdot(vv, ww)}")
                if not abs(float(obj.overlap(other)) - abs(np.vdot(vv, ww)) ** 2) <= 1e-10 * scale**2 * max(1.0, np.linalg.norm(ww)) ** 2:  # NaN fails
                    raise Violation("overlap", "overlap != |<a|b>|^2")
                ref2 = np.vdot(vv, Hd @ vv)
                if not abs(got2 - ref2) <= 1e-9 * scale**2 * max(1.0, np.linalg.norm(Hd, 2)):  # NaN fails
                    raise Violation("MPO.expect", f"MPO.expect = {got2} but dense {ref2}")
        else:
            raise ValueError(op)

        # ---- post-state -----------------------------------------------------------------
        got_v = dense(obj)
        cap_binds = any(f.shape[2] >= op_cap for f in obj.factors[:-1])
        if trunc_tol is not None:
            enforced[id(obj)] = op_cap
        if trunc_tol is None:
            if mode == "C11" and np.linalg.norm(got_v - new_v) > tol_exact * scale:
                raise Violation(f"state-after-{op}", f"after {op} the represented state differs from the dense result by {np.linalg.norm(got_v - new_v):.3e}")
        else:
            err = np.linalg.norm(got_v - new_v)
            if not cap_binds and err > trunc_tol + tol_exact * scale:
                raise Violation(
                    f"truncation-error-{op}",
                    f"{op}: bond cap {op_cap} not binding (bonds {[f.shape[2] for f in obj.factors[:-1]]}) but the state moved by {err:.3e} > (N-1)*precision = {trunc_tol:.3e}",
                )
        live[cur][1] = got_v  # re-synchronise the model with the implementation after (possibly lossy) ops
        expected[id(obj)] = got_v
        for o, _, tag in live:
            if mode == "C10":
                e = check_canonical(o, tag, enforced.get(id(o)))
                if e:
                    raise Violation("canonical-form", f"after {op}: {e}")
            if mode == "C11" and o is not obj:
                d = np.linalg.norm(dense(o) - expected[id(o)])
                if d > tol_exact * max(1.0, np.linalg.norm(expected[id(o)])):
                    raise Violation(f"operand-mutated-by-{op}", f"{op} changed the state represented by an operand it must not modify ({tag}) by {d:.3e}")
        if mode == "C11" and np.abs(mpo_to_mat(H.factors) - Hd_before).max() > 1e-12:
            raise Violation(f"mpo-mutated-by-{op}", f"{op} changed the MPO operand")
    obj = live[cur][0]
    key = (tuple(np.round(live[cur][1], 6).tolist()[:64]), tuple(f.shape[2] for f in obj.factors), obj.orthogonality_center)
    return hash(key), len(history)


def explore(n, dim, init, precision, cap, depth, seed, mode, ops=None):
    """All histories of length 1..depth (prefixes are covered by the longer ones)."""
    ops = ops or OPS
    cache = {}
    states = set()
    transitions = 0
    for history in itertools.product(ops, repeat=depth):
        try:
            key, k = run_history(n, dim, init, precision, cap, history, seed, mode, cache)
        except Violation as v:
            return None, (v.sig, f"history {list(history)} from '{init}' (N={n}, dim={dim}, precision={precision}, max_bond_dim={cap}): {v}")
        states.add(key)
        transitions += k
    return (len(states), transitions), None
