"""setup-time self test: every property module imports and yields at least one case; seams install/uninstall."""
import importlib
import json
import pkgutil
import sys

from mc import core


def main() -> int:
    core._quiet_torch()
    import mc.props as props

    bad = 0
    for m in pkgutil.iter_modules(props.__path__):
        if not m.name.startswith("C"):
            continue
        try:
            mod = importlib.import_module(f"mc.props.{m.name}")
            first = next(iter(mod.cases("quick", 0)))
            json.dumps(first, default=str)
        except Exception as e:  # pragma: no cover
            print(f"selftest: {m.name} broken: {e!r}", file=sys.stderr)
            bad += 1
    try:
        from mc import seams

        bad += seams.selftest()
    except ImportError:
        pass
    bad += _explorers()
    print("selftest", "FAILED" if bad else "ok")
    return 1 if bad else 0


def _explorers() -> int:
    """the explorers enumerate exactly the spaces they claim (toy systems with known sizes)"""
    import torch

    from mc import explore, seams

    bad = 0
    # deviation-bounded DFS: 3 binary choice points, non-default answers cost 1 -> #paths with <= b deviations = sum_k C(3,k)
    for b, want in ((0, 1), (1, 4), (2, 7), (3, 8)):
        seen = set()
        for choices, out in explore.explore_answers(lambda ch: tuple(ch.choose(2) for _ in range(3)), b):
            seen.add(out)
        if len(seen) != want or any(sum(o) > b for o in seen):
            print(f"selftest: explore_answers bound {b}: {len(seen)} paths, expected {want}", file=sys.stderr)
            bad += 1
    # exact distribution of a 2-site sequential sampler with known conditional weights
    w0 = torch.tensor([[0.25, 0.75]])
    w1 = {0: torch.tensor([[1.0, 0.0]]), 1: torch.tensor([[0.5, 0.5]])}

    def sample():
        from collections import Counter

        a = int(torch.multinomial(w0, 1)[0, 0])
        b = int(torch.multinomial(w1[a], 1)[0, 0])
        return Counter([f"{a}{b}"])

    dist, paths = explore.exact_bitstring_distribution(sample)
    want = {"00": 0.25, "10": 0.375, "11": 0.375}
    if paths != 3 or set(dist) != set(want) or any(abs(dist[k] - v) > 1e-12 for k, v in want.items()):
        print(f"selftest: exact_bitstring_distribution gave {dist} in {paths} paths", file=sys.stderr)
        bad += 1
    # replaying a prefix that the driver does not consume as recorded must be a hard error
    try:
        state = {"n": 0}

        def flaky(ch):
            state["n"] += 1
            return ch.choose(2 if state["n"] == 1 else 1)

        list(explore.explore_answers(flaky, 1))
        bad += 1
        print("selftest: replay divergence not detected", file=sys.stderr)
    except RuntimeError:
        pass
    return bad
