"""setup-time self test: every property module imports and yields at least one case; seams install/uninstall."""
import importlib
import json
import pkgutil
import sys

from mc import core


def main() -> int:
    core._quiet_torch()
    import mc.props as props

    bad = 0
    for m in pkgutil.iter_modules(props.__path__):
        if not m.name.startswith("C"):
            continue
        try:
            mod = importlib.import_module(f"mc.props.{m.name}")
            first = next(iter(mod.cases("quick", 0)))
            json.dumps(first, default=str)
        except Exception as e:  # pragma: no cover
            print(f"selftest: {m.name} broken: {e!r}", file=sys.stderr)
            bad += 1
    try:
        from mc import seams

        bad += seams.selftest()
    except ImportError:
        pass
    bad += _explorers()
    bad += _driver()
    print("selftest", "FAILED" if bad else "ok")
    return 1 if bad else 0


def _explorers() -> int:
    """the explorers enumerate exactly the spaces they claim (toy systems with known sizes)"""
    import torch

    from mc import explore, seams

    bad = 0
    # deviation-bounded DFS: 3 binary choice points, non-default answers cost 1 -> #paths with <= b deviations = sum_k C(3,k)
    for b, want in ((0, 1), (1, 4), (2, 7), (3, 8)):
        seen = set()
        for choices, out in explore.explore_answers(lambda ch: tuple(ch.choose(2) for _ in range(3)), b):
            seen.add(out)
        if len(seen) != want or any(sum(o) > b for o in seen):
            print(f"selftest: explore_answers bound {b}: {len(seen)} paths, expected {want}", file=sys.stderr)
            bad += 1
    # exact distribution of a 2-site sequential sampler with known conditional weights
    w0 = torch.tensor([[0.25, 0.75]])
    w1 = {0: torch.tensor([[1.0, 0.0]]), 1: torch.tensor([[0.5, 0.5]])}

    def sample():
        from collections import Counter

        a = int(torch.multinomial(w0, 1)[0, 0])
        b = int(torch.multinomial(w1[a], 1)[0, 0])
        return Counter([f"{a}{b}"])

    dist, paths = explore.exact_bitstring_distribution(sample)
    want = {"00": 0.25, "10": 0.375, "11": 0.375}
    if paths != 3 or set(dist) != set(want) or any(abs(dist[k] - v) > 1e-12 for k, v in want.items()):
        print(f"selftest: exact_bitstring_distribution gave {dist} in {paths} paths", file=sys.stderr)
        bad += 1
    # replaying a prefix that the driver does not consume as recorded must be a hard error
    try:
        state = {"n": 0}

        def flaky(ch):
            state["n"] += 1
            return ch.choose(2 if state["n"] == 1 else 1)

        list(explore.explore_answers(flaky, 1))
        bad += 1
        print("selftest: replay divergence not detected", file=sys.stderr)
    except RuntimeError:
        pass
    return bad


def _driver() -> int:
    """the driver reports what it should: a plain violation, a violation that needs an earlier case of the same process (with that
    history), and a verdict that is not reproducible (exit code 2, never a VIOLATION line)"""
    import contextlib
    import io
    import os
    import pathlib
    import tempfile

    bad = 0
    tmp = pathlib.Path(tempfile.mkdtemp(prefix="verif-selftest-"))
    old = core.EVIDENCE_DIR, core.REPLAY_DIR
    core.EVIDENCE_DIR, core.REPLAY_DIR = tmp / "evidence", tmp / "replays"
    try:
        for mode, want_rc, want in (("clean", 0, None), ("plain", 1, "toy|plain"), ("order", 1, "ORDER-DEPENDENT"), ("flaky", 2, None)):
            os.environ["TOY_MODE"] = mode
            os.environ["TOY_MARKER"] = str(tmp / "marker")
            out, err = io.StringIO(), io.StringIO()
            with contextlib.redirect_stdout(out), contextlib.redirect_stderr(err):
                rc = core.run_check("T00", "quick", 0, jobs=3)
            text = out.getvalue()
            ok = rc == want_rc and (want is None or want in text) and (("VIOLATION" in text) == (want_rc == 1))
            if mode == "order" and ok:
                # the artefact holds the shortest history found: one earlier case
                (art,) = list((tmp / "replays").glob("T00-*.json"))[-1:]
                data = json.loads(art.read_text())
                ok = len(data.get("history", [])) == 1 and data["history"][0]["k"] % 10 == 3
            if not ok:
                print(f"selftest: driver mode {mode}: rc={rc} (expected {want_rc})\n{text}\n{err.getvalue()}", file=sys.stderr)
                bad += 1
            for f in (tmp / "replays").glob("*.json") if (tmp / "replays").exists() else []:
                f.unlink()
    finally:
        core.EVIDENCE_DIR, core.REPLAY_DIR = old
        os.environ.pop("TOY_MODE", None)
        os.environ.pop("TOY_MARKER", None)
        import shutil

        shutil.rmtree(tmp, ignore_errors=True)
    return bad
