"""setup-time self test: every property module imports and yields at least one case; seams install/uninstall."""
import importlib
import json
import pkgutil
import sys

from mc import core


def main() -> int:
    core._quiet_torch()
    import mc.props as props

    bad = 0
    for m in pkgutil.iter_modules(props.__path__):
        if not m.name.startswith("C"):
            continue
        try:
            mod = importlib.import_module(f"mc.props.{m.name}")
            first = next(iter(mod.cases("quick", 0)))
            json.dumps(first, default=str)
        except Exception as e:  # pragma: no cover
            print(f"selftest: {m.name} broken: {e!r}", file=sys.stderr)
            bad += 1
    try:
        from mc import seams

        bad += seams.selftest()
    except ImportError:
        pass
    print("selftest", "FAILED" if bad else "ok")
    return 1 if bad else 0
