"""
Harness-level seams: every source of nondeterminism the emulators consult is replaced, for the
duration of one execution, by an object the explorer scripts.  Nothing here edits /repo.
"""
from __future__ import annotations

import contextlib
import types

import numpy as np


class NeedMore(Exception):
    """The code asked for an answer the script has not fixed yet (explorer expands the node)."""

    def __init__(self, kind, info=None):
        super().__init__(kind)
        self.kind = kind
        self.info = info


# ------------------------------------------------------------------------------------------------
# numpy.random as seen by pulser's HamiltonianData (bad atoms, amplitude / detuning / register noise)
# ------------------------------------------------------------------------------------------------


class _ScriptedNPRandom:
    def __init__(self, uniform=None, normal=None, strict=False):
        self.uniform_script = list(uniform or [])
        self.normal_script = list(normal or [])
        self.strict = strict
        self.log = []

    def uniform(self, low=0.0, high=1.0, size=None):
        self.log.append(("uniform", size))
        if not self.uniform_script:
            if self.strict:
                raise NeedMore("np.uniform", size)
            ans = [0.999999]  # default answer: every atom well prepared
        else:
            ans = self.uniform_script.pop(0)
        if size is None:
            return float(low + (high - low) * float(np.asarray(ans).reshape(-1)[0]))
        arr = np.asarray(ans, dtype=float)
        n = int(np.prod(size))
        if arr.size != n:
            arr = np.resize(arr, n)
        return low + (high - low) * arr.reshape(size)

    def normal(self, loc=0.0, scale=1.0, size=None):
        """script entries are standard-normal deviates z; value = loc + scale*z"""
        self.log.append(("normal", size))
        if not self.normal_script:
            if self.strict:
                raise NeedMore("np.normal", size)
            z = [0.0]  # default answer: no fluctuation
        else:
            z = self.normal_script.pop(0)
        if size is None:
            return float(loc + scale * float(np.asarray(z).reshape(-1)[0]))
        arr = np.asarray(z, dtype=float)
        n = int(np.prod(size))
        if arr.size != n:
            arr = np.resize(arr, n)
        return loc + scale * arr.reshape(size)


class _NPFacade(types.ModuleType):
    def __init__(self, rnd):
        super().__init__("numpy_facade")
        self.__dict__["random"] = rnd

    def __getattr__(self, name):
        return getattr(np, name)


@contextlib.contextmanager
def pulser_np_random(uniform=None, normal=None, strict=False):
    """Script the draws of pulser._hamiltonian_data.hamiltonian_data (bad atoms = uniform < state_prep_error)."""
    import pulser._hamiltonian_data.hamiltonian_data as hd

    rnd = _ScriptedNPRandom(uniform, normal, strict)
    old = hd.np
    hd.np = _NPFacade(rnd)
    try:
        yield rnd
    finally:
        hd.np = old


def bad_mask_uniform(mask):
    """uniform draws that make exactly the atoms of `mask` badly prepared for any 0 < eta < 1: bad -> 0.0, good -> 1.0"""
    return [0.0 if b else 0.999999 for b in mask]


# ------------------------------------------------------------------------------------------------
# python `random` as seen by a module (jump threshold / operator choice / readout flips)
# ------------------------------------------------------------------------------------------------


class ScriptedRandom:
    """Stands in for the `random` module inside one emulator module."""

    def __init__(self, uniforms=None, choices=None, randoms=None, default_uniform=None, default_choice=None):
        self.uniforms = list(uniforms or [])
        self.choice_script = list(choices or [])
        self.randoms = list(randoms or [])
        self.default_uniform = default_uniform
        self.default_choice = default_choice
        self.log = []

    def uniform(self, a, b):
        if self.uniforms:
            u = self.uniforms.pop(0)
        elif self.default_uniform is not None:
            u = self.default_uniform
        else:
            raise NeedMore("uniform", (a, b))
        self.log.append(("uniform", a, b, u))
        return a + (b - a) * u

    def choices(self, population, weights=None, k=1):
        w = list(weights) if weights is not None else [1.0] * len(population)
        if self.choice_script:
            i = self.choice_script.pop(0)
        elif self.default_choice is not None:
            i = self.default_choice
        else:
            raise NeedMore("choices", w)
        self.log.append(("choices", w, i))
        return [population[i]]

    def random(self):
        if not self.randoms:
            raise NeedMore("random")
        r = self.randoms.pop(0)
        self.log.append(("random", r))
        return r


@contextlib.contextmanager
def module_random(module, scripted):
    old = module.random
    module.random = scripted
    try:
        yield scripted
    finally:
        module.random = old


# ------------------------------------------------------------------------------------------------
# torch.multinomial (sampling of bitstrings)
# ------------------------------------------------------------------------------------------------


class ScriptedMultinomial:
    """Records every weight tensor offered, answers from the script (list of index lists / tensors)."""

    def __init__(self, answers=None, answer_fn=None):
        self.answers = list(answers or [])
        self.answer_fn = answer_fn
        self.offers = []

    def __call__(self, probs, num_samples, replacement=False, *, generator=None, out=None):
        import torch

        self.offers.append((probs.detach().clone(), num_samples, replacement))
        if self.answer_fn is not None:
            ans = self.answer_fn(probs, num_samples, len(self.offers) - 1)
        elif self.answers:
            ans = self.answers.pop(0)
        else:
            raise NeedMore("multinomial", probs.detach().clone())
        t = torch.as_tensor(ans, dtype=torch.int64)
        if probs.ndim == 2 and t.ndim == 1:
            t = t.reshape(probs.shape[0], -1)
        return t


@contextlib.contextmanager
def torch_multinomial(scripted):
    import torch

    old = torch.multinomial
    torch.multinomial = scripted
    try:
        yield scripted
    finally:
        torch.multinomial = old


# ------------------------------------------------------------------------------------------------
# qubit-order optimiser answer
# ------------------------------------------------------------------------------------------------


@contextlib.contextmanager
def optimiser_answer(perm):
    """Make emu_mps' qubit-order optimisation return `perm` (any permutation is a legal answer of a heuristic)."""
    import torch
    import emu_mps.optimatrix as optimat
    import emu_mps.mps_backend_impl as impl

    calls = []

    def fake(matrix, *a, **k):
        calls.append(tuple(matrix.shape))
        return torch.tensor(list(perm), dtype=torch.int64) if not isinstance(perm, torch.Tensor) else perm

    old = optimat.minimize_bandwidth
    optimat.minimize_bandwidth = fake
    old2 = getattr(impl.optimat, "minimize_bandwidth", None)
    try:
        yield calls
    finally:
        optimat.minimize_bandwidth = old


# ------------------------------------------------------------------------------------------------
# fake clock for emu_mps.mps_backend_impl / emu_mps.mps_backend
# ------------------------------------------------------------------------------------------------


class FakeClock(types.ModuleType):
    """Replacement for the `time` module inside a module: time() is advanced by the explorer only."""

    def __init__(self, start=1000.0):
        super().__init__("fake_time")
        self.__dict__["now"] = start

    def time(self):
        return self.__dict__["now"]

    def advance(self, s):
        self.__dict__["now"] += s

    def __getattr__(self, name):
        import time as _t

        return getattr(_t, name)


@contextlib.contextmanager
def fake_time(modules, clock=None):
    clock = clock or FakeClock()
    olds = [(m, m.time) for m in modules]
    for m in modules:
        m.time = clock
    try:
        yield clock
    finally:
        for m, o in olds:
            m.time = o


def selftest() -> int:
    bad = 0
    with pulser_np_random(uniform=[[0.0, 0.9]]) as r:
        import pulser._hamiltonian_data.hamiltonian_data as hd

        v = hd.np.random.uniform(size=2)
        if list(v) != [0.0, 0.9] or hd.np.arange(3).tolist() != [0, 1, 2]:
            bad += 1
    import pulser._hamiltonian_data.hamiltonian_data as hd

    if hd.np is not np:
        bad += 1
    s = ScriptedRandom(uniforms=[0.25], choices=[1], randoms=[0.5])
    if s.uniform(0, 2) != 0.5 or s.choices(["a", "b"], weights=[1, 3])[0] != "b" or s.random() != 0.5:
        bad += 1
    c = FakeClock(5.0)
    c.advance(2.5)
    if c.time() != 7.5:
        bad += 1
    return bad
