"""
Harness-level seams: every source of nondeterminism the emulators consult is replaced, for the
duration of one execution, by an object the explorer scripts.  Nothing here edits /repo.
"""
from __future__ import annotations

import contextlib
import types

import numpy as np


class NeedMore(Exception):
    """The code asked for an answer the script has not fixed yet (explorer expands the node)."""

    def __init__(self, kind, info=None):
        super().__init__(kind)
        self.kind = kind
        self.info = info


# ------------------------------------------------------------------------------------------------
# numpy.random as seen by pulser's HamiltonianData (bad atoms, amplitude / detuning / register noise)
# ------------------------------------------------------------------------------------------------


class _ScriptedNPRandom:
    def __init__(self, uniform=None, normal=None, strict=False):
        self.uniform_script = list(uniform or [])
        self.normal_script = list(normal or [])
        self.strict = strict
        self.log = []

    def uniform(self, low=0.0, high=1.0, size=None):
        self.log.append(("uniform", size))
        if not self.uniform_script:
            if self.strict:
                raise NeedMore("np.uniform", size)
            ans = [0.999999]  # default answer: every atom well prepared
        else:
            ans = self.uniform_script.pop(0)
        if size is None:
            return float(low + (high - low) * float(np.asarray(ans).reshape(-1)[0]))
        arr = np.asarray(ans, dtype=float)
        n = int(np.prod(size))
        if arr.size != n:
            arr = np.resize(arr, n)
        return low + (high - low) * arr.reshape(size)

    def normal(self, loc=0.0, scale=1.0, size=None):
        """script entries are standard-normal deviates z; value = loc + scale*z"""
        self.log.append(("normal", size))
        if not self.normal_script:
            if self.strict:
                raise NeedMore("np.normal", size)
            z = [0.0]  # default answer: no fluctuation
        else:
            z = self.normal_script.pop(0)
        if size is None:
            return float(loc + scale * float(np.asarray(z).reshape(-1)[0]))
        arr = np.asarray(z, dtype=float)
        n = int(np.prod(size))
        if arr.size != n:
            arr = np.resize(arr, n)
        return loc + scale * arr.reshape(size)


class _NPFacade(types.ModuleType):
    def __init__(self, rnd):
        super().__init__("numpy_facade")
        self.__dict__["random"] = rnd

    def __getattr__(self, name):
        return getattr(np, name)


@contextlib.contextmanager
def pulser_np_random(uniform=None, normal=None, strict=False):
    """Script the draws of pulser._hamiltonian_data.hamiltonian_data (bad atoms = uniform < state_prep_error)."""
    import pulser._hamiltonian_data.hamiltonian_data as hd

    rnd = _ScriptedNPRandom(uniform, normal, strict)
    old = hd.np
    hd.np = _NPFacade(rnd)
    try:
        yield rnd
    finally:
        hd.np = old


def bad_mask_uniform(mask):
    """uniform draws that make exactly the atoms of `mask` badly prepared for any 0 < eta < 1: bad -> 0.0, good -> 1.0"""
    return [0.0 if b else 0.999999 for b in mask]


# ------------------------------------------------------------------------------------------------
# python `random` as seen by a module (jump threshold / operator choice / readout flips)
# ------------------------------------------------------------------------------------------------


class ScriptedRandom:
    """Stands in for the `random` module inside one emulator module."""

    def __init__(self, uniforms=None, choices=None, randoms=None, default_uniform=None, default_choice=None):
        self.uniforms = list(uniforms or [])
        self.choice_script = list(choices or [])
        self.randoms = list(randoms or [])
        self.default_uniform = default_uniform
        self.default_choice = default_choice
        self.log = []

    def uniform(self, a, b):
        if self.uniforms:
            u = self.uniforms.pop(0)
        elif self.default_uniform is not None:
            u = self.default_uniform
        else:
            raise NeedMore("uniform", (a, b))
        self.log.append(("uniform", a, b, u))
        return a + (b - a) * u

    def choices(self, population, weights=None, k=1):
        w = list(weights) if weights is not None else [1.0] * len(population)
        if self.choice_script:
            i = self.choice_script.pop(0)
        elif self.default_choice is not None:
            i = self.default_choice
        else:
            raise NeedMore("choices", w)
        self.log.append(("choices", w, i))
        return [population[i]]

    def random(self):
        if not self.randoms:
            raise NeedMore("random")
        r = self.randoms.pop(0)
        self.log.append(("random", r))
        return r


@contextlib.contextmanager
def module_random(module, scripted):
    old = module.random
    module.random = scripted
    try:
        yield scripted
    finally:
        module.random = old


# ------------------------------------------------------------------------------------------------
# torch.multinomial (sampling of bitstrings)
# ------------------------------------------------------------------------------------------------


class ScriptedMultinomial:
    """Records every weight tensor offered, answers from the script (list of index lists / tensors)."""

    def __init__(self, answers=None, answer_fn=None):
        self.answers = list(answers or [])
        self.answer_fn = answer_fn
        self.offers = []

    def __call__(self, probs, num_samples, replacement=False, *, generator=None, out=None):
        import torch

        self.offers.append((probs.detach().clone(), num_samples, replacement))
        if self.answer_fn is not None:
            ans = self.answer_fn(probs, num_samples, len(self.offers) - 1)
        elif self.answers:
            ans = self.answers.pop(0)
        else:
            raise NeedMore("multinomial", probs.detach().clone())
        t = torch.as_tensor(ans, dtype=torch.int64)
        if probs.ndim == 2 and t.ndim == 1:
            t = t.reshape(probs.shape[0], -1)
        return t


@contextlib.contextmanager
def torch_multinomial(scripted):
    import torch

    old = torch.multinomial
    torch.multinomial = scripted
    try:
        yield scripted
    finally:
        torch.multinomial = old


# ------------------------------------------------------------------------------------------------
# qubit-order optimiser answer
# ------------------------------------------------------------------------------------------------


@contextlib.contextmanager
def optimiser_answer(perm):
    """Make emu_mps' qubit-order optimisation return `perm` (any permutation is a legal answer of a heuristic)."""
    import torch
    import emu_mps.optimatrix as optimat
    import emu_mps.mps_backend_impl as impl

    calls = []

    def fake(matrix, *a, **k):
        calls.append(tuple(matrix.shape))
        return torch.tensor(list(perm), dtype=torch.int64) if not isinstance(perm, torch.Tensor) else perm

    old = optimat.minimize_bandwidth
    optimat.minimize_bandwidth = fake
    old2 = getattr(impl.optimat, "minimize_bandwidth", None)
    try:
        yield calls
    finally:
        optimat.minimize_bandwidth = old


# ------------------------------------------------------------------------------------------------
# fake clock for emu_mps.mps_backend_impl / emu_mps.mps_backend
# ------------------------------------------------------------------------------------------------


class FakeClock(types.ModuleType):
    """Replacement for the `time` module inside a module: time() is advanced by the explorer only."""

    def __init__(self, start=1000.0):
        super().__init__("fake_time")
        self.__dict__["now"] = start

    def time(self):
        return self.__dict__["now"]

    def advance(self, s):
        self.__dict__["now"] += s

    def __getattr__(self, name):
        import time as _t

        return getattr(_t, name)


@contextlib.contextmanager
def fake_time(modules, clock=None):
    clock = clock or FakeClock()
    olds = [(m, m.time) for m in modules]
    for m in modules:
        m.time = clock
    try:
        yield clock
    finally:
        for m, o in olds:
            m.time = o


def selftest() -> int:
    bad = 0
    with pulser_np_random(uniform=[[0.0, 0.9]]) as r:
        import pulser._hamiltonian_data.hamiltonian_data as hd

        v = hd.np.random.uniform(size=2)
        if list(v) != [0.0, 0.9] or hd.np.arange(3).tolist() != [0, 1, 2]:
            bad += 1
    import pulser._hamiltonian_data.hamiltonian_data as hd

    if hd.np is not np:
        bad += 1
    s = ScriptedRandom(uniforms=[0.25], choices=[1], randoms=[0.5])
    if s.uniform(0, 2) != 0.5 or s.choices(["a", "b"], weights=[1, 3])[0] != "b" or s.random() != 0.5:
        bad += 1
    c = FakeClock(5.0)
    c.advance(2.5)
    if c.time() != 7.5:
        bad += 1
    return bad


# ------------------------------------------------------------------------------------------------
# file-system interposer with crash injection (engine E4)
# ------------------------------------------------------------------------------------------------


class Crash(BaseException):
    """Process death injected by the explorer (BaseException: no `except Exception` in the code under test can swallow it)."""


class FSInterposer:
    """
    Wraps every file-system mutation the process performs below `root`:
      open(..., 'w'/'wb'/'a'...)  -> events  open / write#k / close
      os.rename, os.replace, os.remove, os.unlink, shutil.move (via os)  -> one event each
    Every event has two crash points: 'before' (the mutation does not happen) and 'after' (it happened, nothing later does).
    For write events a crash 'during' leaves a torn file: only `torn(len)` bytes of that write reach the file.
    crash_at = (event_index, when) with when in {'before', 'after', 'during:<class>'}.
    """

    def __init__(self, root, crash_at=None, active=False):
        self.root = str(root)
        self.crash_at = crash_at
        self.log = []
        self.active = active  # events are only counted / crashed while active (set by the harness around the save under test)
        self.crashed = False

    # -- bookkeeping --------------------------------------------------------------------------------
    def _event(self, op, path, do, torn=None):
        if not self.active or self.crashed:
            return do()
        idx = len(self.log)
        self.log.append((op, str(path).replace(self.root, "<dir>")))
        if self.crash_at and self.crash_at[0] == idx:
            when = self.crash_at[1]
            if when == "before":
                self.crashed = True
                raise Crash(f"before {op}")
            if when.startswith("during") and torn is not None:
                torn(when.split(":", 1)[1])
                self.crashed = True
                raise Crash(f"during {op}")
            out = do()
            self.crashed = True
            raise Crash(f"after {op}")
        return do()

    def _mine(self, path):
        try:
            import os

            return os.path.abspath(os.fspath(path)).startswith(self.root)
        except TypeError:
            return False

    # -- wrappers -----------------------------------------------------------------------------------
    def install(self):
        import builtins
        import os

        fs = self
        self._orig = {"open": builtins.open, "rename": os.rename, "replace": os.replace, "remove": os.remove, "unlink": os.unlink}
        o = self._orig

        class WFile:
            def __init__(self, path, fh):
                self._path, self._fh, self._k = path, fh, 0

            def write(self, data):
                k = self._k
                self._k += 1

                def torn(cls):
                    n = len(data)
                    cut = {"0": 0, "1": min(1, n), "half": n // 2, "allbut1": max(n - 1, 0)}[cls]
                    self._fh.write(data[:cut])
                    self._fh.flush()
                    self._die()

                try:
                    return fs._event(f"write#{k}", self._path, lambda: self._fh.write(data), torn=torn)
                except Crash:
                    self._die()
                    raise

            def _die(self):
                """process death: the OS closes the descriptor, Python's user-space write buffer is LOST (nothing is flushed)"""
                try:
                    raw = getattr(self._fh, "raw", None)
                    if raw is not None and not raw.closed:
                        raw.close()
                    try:
                        self._fh.close()
                    except Exception:
                        pass
                except Exception:
                    pass

            def close(self):
                if self._fh.closed:
                    return None
                try:
                    return fs._event("close", self._path, self._fh.close)
                except Crash:
                    self._die()
                    raise

            def __enter__(self):
                return self

            def __exit__(self, et, ev, tb):
                if et is not None and issubclass(et, Crash):
                    self._die()
                    return False
                self.close()
                return False

            def __getattr__(self, name):
                return getattr(self._fh, name)

        def open_(file, mode="r", *a, **k):
            if isinstance(file, int) or not fs._mine(file) or not any(c in mode for c in "wax+"):
                return o["open"](file, mode, *a, **k)
            if "b" in mode and not a and "buffering" not in k:
                # adversarial but legal environment: written data stays in the process's buffer until flush() / close()
                # (Python only guarantees that much), so a process death loses everything that was not flushed
                k = dict(k, buffering=1 << 26)
            fh = fs._event("open:" + mode, file, lambda: o["open"](file, mode, *a, **k))
            return WFile(file, fh)

        def two(name):
            def f(src, dst, *a, **k):
                if not (fs._mine(src) or fs._mine(dst)):
                    return o[name](src, dst, *a, **k)
                import os as _os

                return fs._event(f"{name}:{_os.path.basename(_os.fspath(src)).split('.')[-1]}->{_os.path.basename(_os.fspath(dst)).split('.')[-1]}", src, lambda: o[name](src, dst, *a, **k))

            return f

        def one(name):
            def f(path, *a, **k):
                if not fs._mine(path):
                    return o[name](path, *a, **k)
                import os as _os

                return fs._event(f"{name}:{_os.path.basename(_os.fspath(path)).split('.')[-1]}", path, lambda: o[name](path, *a, **k))

            return f

        builtins.open = open_
        os.rename, os.replace, os.remove, os.unlink = two("rename"), two("replace"), one("remove"), one("unlink")

    def uninstall(self):
        import builtins
        import os

        o = self._orig
        builtins.open = o["open"]
        os.rename, os.replace, os.remove, os.unlink = o["rename"], o["replace"], o["remove"], o["unlink"]


@contextlib.contextmanager
def fs_interposer(root, crash_at=None):
    fs = FSInterposer(root, crash_at)
    fs.install()
    try:
        yield fs
    finally:
        fs.uninstall()
